#!/usr/bin/env python3
"""Regenerates MANIFEST.json from the table below (kept as code so that the JSON stays valid and consistent)."""
import json, sys
from pathlib import Path

HERE = Path(__file__).resolve().parent
ALL = [f"C{i:02d}" for i in range(1, 21)]

LEVEL_TEXT_A = ("bounded symbolic checking of the real functions: CrossHair executes the harness path by path, z3 decides every "
                "branch; a shard counts only when CrossHair reports 'confirmed over all paths'. The structures are an explicit "
                "finite family (selector), the data arguments are symbolic")
NOTE_A = ("trusted: CrossHair 0.0.110 + z3 5.1.0; third-party code (Lark, particle, pandas, numpy) runs untraced on concrete "
          "arguments through identity proxies; the oracle written in the harness; bounds listed in evidence")

CHECKS = {
    "C04": dict(
        text=LEVEL_TEXT_A + ". For C04 the name tables are covered completely (every installed EvtGen and PDG name) and "
             "multiplicities, branching fraction and metadata values are unbounded symbolic values.",
        note=NOTE_A,
        technique="symbolic execution of the real conjugation functions (CrossHair/z3), all paths confirmed per shard; "
                  "counter-examples replayed concretely",
        design="§2 C04", engine="crosshair"),
}

LEVEL_TEXT_B = ("solver-decided language and lexer obligations regenerated on every run from the Lark object the repository builds: "
                "grammar-vs-statement-language equivalence and terminal languages for words of every length (z3 regular-expression "
                "theory), lexer lemmas for all lexemes up to a stated length in every reachable (LALR state, follow set); ")
NOTE_B = ("trusted: z3 5.1.0 answers; Lark's documented semantics of rule->tree construction and scanner order (model replayed on the "
          "real scanner / parser for every witness and validated on all shipped .dec files); the hand-written statement-language "
          "specification; composition of lexer lemmas and grammar equivalence is a pen-and-paper step; " + NOTE_A)
CHECKS["C01"] = dict(
    text=LEVEL_TEXT_B + "plus " + LEVEL_TEXT_A + " (end-to-end through the real parse(): blocks, lines, daughters over the whole "
         "alphabet, all 135 models x PHOTOS x parameter-list variants).",
    note=NOTE_B, technique="z3 regex inclusion + symbolic backtracking-matcher lexer lemmas (SMT) on the captured Lark object; "
    "CrossHair symbolic execution of the parser post-processing; witnesses replayed on the real parser", design="§0, §2 C01", engine="smt+crosshair")
CHECKS["C06"] = dict(
    text=LEVEL_TEXT_B + "the MODEL_NAME terminal is the one produced by the real edit_terminals callback, for the published list and for "
         "adversarial families of user-registered names, and for a *symbolic* registered name of every length 1..6 (thorough 1..10) obtained by "
         "running the real callback with a marker name and replacing the marker's literals in the produced regular expression by z3 integers; plus " + LEVEL_TEXT_A + " (acceptance of every name in 12 contexts, rejection of "
         "near-miss words).",
    note=NOTE_B, technique="SMT lexer lemmas (symbolic regex matcher over the real scanner order, incl. \\b and alternation order) per "
    "registered-name family; CrossHair on parse() for accept/reject; witnesses replayed on the real scanner and parser",
    design="§2 C06", engine="smt+crosshair")

CHECKS["C07"] = dict(
    text=LEVEL_TEXT_B + "this fixes the shape of all 16 statement kinds; plus " + LEVEL_TEXT_A + " (11 declaration queries x counts x "
         "name-repetition patterns x placements x literal forms, oracle written from the statement).",
    note=NOTE_B, technique="z3 regex equivalence grammar vs statement language + SMT keyword/number lexer lemmas; CrossHair on parse() and "
    "the get_* query functions; counter-examples replayed concretely", design="§2 C07", engine="smt+crosshair")

CHECKS["C02"] = dict(
    text=LEVEL_TEXT_B + "blanks, line ends (LF/CRLF + indentation) and comments are single ignored/filtered tokens in every state where they "
         "may occur, and the grammar language is closed under repeating line ends and semicolons (all lengths); plus " + LEVEL_TEXT_A +
         " (differential: all 2^9 combinations of the listed rewrites on three base texts; real files through the real constructor: split "
         "points x End spellings x BOM x line ends).",
    note=NOTE_B + "; selector-only harness bodies run untraced once the selector is decoded (no symbolic input is left)",
    technique="SMT lexer lemmas for blanks/line ends/comments + z3 regex closure queries on the captured grammar; CrossHair-driven "
    "differential runs of the real constructor and parser on rewritten texts / packaged files", design="§2 C02", engine="smt+crosshair")

CHECKS["C05"] = dict(
    text=LEVEL_TEXT_A + ". The visitor harness keeps both Define values symbolic (any non-NaN float) through the real alias transformer and "
         "parameter visitor; the expansion harness is a differential against the hand-expanded text over placements, use counts, "
         "redefinitions, copied and conjugated tables.",
    note=NOTE_A, technique="CrossHair symbolic execution of DecayModelAliasReplacement / DecayModelParamValueReplacement with symbolic "
    "Define values; solver-driven differential runs of parse() on a text and its expansion", design="§2 C05", engine="crosshair")
CHECKS["C03"] = dict(
    text=LEVEL_TEXT_A + ". No symbolic data (names are dictionary keys): the solver closes the enumeration of statement orders, ChargeConj "
         "orientations, source kinds, switch values, session histories, and of the whole EvtGen name table in a daughter slot.",
    note=NOTE_A, technique="CrossHair-driven exhaustive enumeration of a statement-order family through the real parse(), oracle = the "
    "conjugation rule of the statement; counter-examples replayed concretely", design="§2 C03", engine="crosshair")

ENUM = (" No symbolic data remains once the structure is chosen (names are dictionary keys / texts): the solver drives and closes "
        "the enumeration of the explicit family, bodies run concretely.")
CHECKS["C08"] = dict(
    text=LEVEL_TEXT_A + ". Histories: every ordered pair of 28 query call shapes with in-place modification of the results, compared "
         "observationally with a fresh instance; object-identity disjointness of all decay tables; re-parse." + ENUM,
    note=NOTE_A, technique="CrossHair-driven exhaustive enumeration of two-step query histories on the real DecFileParser against a fresh-"
    "instance oracle; identity-disjointness check of the internal trees", design="§2 C08", engine="crosshair")
CHECKS["C09"] = dict(
    text=LEVEL_TEXT_A + ". 29 400 acyclic table sets (tables given by Decay, CopyDecay or CDecay) x every mother x stable sets, against the "
         "recursive definition." + ENUM,
    note=NOTE_A, technique="CrossHair-driven exhaustive enumeration of acyclic table sets through the real parse()/build_decay_chains, "
    "oracle = recursive definition", design="§2 C09", engine="crosshair")
CHECKS["C10"] = dict(
    text=LEVEL_TEXT_A + ". Same table-set family as C09 with decaying and stable aliases, empty blocks, products of up to 4 decaying "
         "daughters; oracle = independent enumeration as a multiset + sum-of-products count; with and without earlier chain-building calls." + ENUM,
    note=NOTE_A, technique="CrossHair-driven exhaustive enumeration of acyclic table sets through expand_decay_modes, oracle = multiset of "
    "paths and path count", design="§2 C10", engine="crosshair")

CHECKS["C12"] = dict(
    text=LEVEL_TEXT_A + ". Branching fractions are symbolic integers (exact products; z3 nonlinear arithmetic, limited as stated in the "
         "evidence), leaf multiplicities and metadata are unbounded symbolic integers; structures: all DAG shapes over up to 5 decaying "
         "particles (quick: a stated subset for 5) plus chains/bushes of 6, three orders of the mapping, every stable subset.",
    note=NOTE_A, technique="CrossHair symbolic execution of DecayChain.flatten with symbolic branching fractions and multiplicities; z3 "
    "decides the product / multiset identities on every path", design="§2 C12", engine="crosshair")
CHECKS["C16"] = dict(
    text=LEVEL_TEXT_A + ". Values are a finite grid of exact binary fractions because formatting realises floats; 10 080 combinations of line "
         "counts, tie patterns, print options, scale values and naming." + ENUM,
    note=NOTE_A, technique="CrossHair-driven exhaustive enumeration of option/value combinations through the real print_decay_modes with "
    "captured stdout, oracle = ordering/scaling rule of the statement", design="§2 C16", engine="crosshair")

CHECKS["C11"] = dict(
    text=LEVEL_TEXT_A + ". Symbolic: branching fractions (float for modes, int for chains) and metadata values (int, str, nested); "
         "structures: all tree shapes up to 5 decaying particles, repeated-particle shapes (to_dict half; the from_dict half is known "
         "finding F4), parser-produced single-line chains, every PDG id of the EvtGen table through from_pdgids.",
    note=NOTE_A, technique="CrossHair symbolic execution of DecayMode/DecayChain to_dict/from_dict with symbolic bf and metadata; solver-"
    "driven enumeration for the parser and constructor families", design="§2 C11", engine="crosshair")
CHECKS["C13"] = dict(
    text=LEVEL_TEXT_A + ". The descriptor is read back by an independent bracket reader and compared with the tree; 1000 combinations of "
         "structures (incl. repeated decaying daughters), name pools with parentheses/quotes/signs and 5 pattern pairs." + ENUM,
    note=NOTE_A, technique="CrossHair-driven exhaustive enumeration of chain structures through to_string, oracle = bracket reader + "
    "order-independence", design="§2 C13", engine="crosshair")
CHECKS["C14"] = dict(
    text=LEVEL_TEXT_A + ". Every history of 5 (quick) / 6 (thorough) steps over 16 operations is run against an observational stack "
         "model (format in force and a rendered descriptor after every step)." + ENUM,
    note=NOTE_A, technique="CrossHair-driven exhaustive enumeration of operation histories on the real DescriptorFormat against a stack model",
    design="§2 C14", engine="crosshair")

CHECKS["C15"] = dict(
    text=LEVEL_TEXT_A + ". The DOT source is read back and compared, as a tree, with the decay lines of the chain dictionary; identifiers "
         "are tracked across all graphs built in a process; every 16th source is also handed to the dot binary." + ENUM,
    note=NOTE_A + "; the external dot binary for the acceptance clause", technique="CrossHair-driven exhaustive enumeration of chain "
    "dictionaries through DecayChainViewer, oracle = line-by-line tree comparison of the DOT source", design="§2 C15", engine="crosshair")

CHECKS["C17"] = dict(
    text=LEVEL_TEXT_B.replace("every reachable (LALR state, follow set); ", "every (LALR state, follow set) reachable with parser stacks up to "
         "depth 14; ") + "for ampgen.lark the genuine recursion decay -> subdecay -> decay is unrolled to nesting depth 3; plus " + LEVEL_TEXT_A +
         " (expand_lines on hand-built chains; the real read_ampgen on 864 generated option texts)." + ENUM,
    note=NOTE_B.replace(".dec files", "inputs"), technique="z3 regex equivalence of the captured ampgen grammar (bounded nesting) with the options "
    "language + SMT lexer lemmas (names, numbers, spin vs lineshape tags, keywords, line ends); CrossHair-driven runs of expand_lines and read_ampgen",
    design="§2 C17", engine="smt+crosshair")

CHECKS["C18"] = dict(
    text=LEVEL_TEXT_A + ". The permutation harness keeps the particle type of every leaf and event-type position symbolic (all multiplicity "
         "patterns over 3 types) for every binary tree shape with up to 4 leaves: soundness, no duplicates and completeness of "
         "list_structure are decided by z3 on every path. The emit harness reads the generated C++ and Python code back for 12 spin "
         "structures x topologies x lineshape kinds x event-type orderings." + ENUM,
    note=NOTE_A, technique="CrossHair symbolic execution of ModelDecay.list_structure with symbolic particle types; solver-driven runs of "
    "the real code generators with the generated text parsed back", design="§2 C18", engine="crosshair")
CHECKS["C19"] = dict(
    text=LEVEL_TEXT_A + ". Function calls for every file, the command-line entry point (subprocess) for a ninth of them. 72 generated files + the shipped model, "
         "four conversions each: returned text = printed text, cross-language equality of all declarations and amplitudes, "
         "declared-before-use, Python output executed against a stand-in goofit module." + ENUM,
    note=NOTE_A, technique="CrossHair-driven runs of ampgen2goofit / ampgen2goofitpy on a generated family; outputs parsed back, compared "
    "across languages, compiled and executed", design="§2 C19", engine="crosshair")

PENDING_REASON = "check not built yet in this session (planned, see DESIGN.md §2); not claimed until its quick command runs clean"
NA = {
    "C20": "quantifies over process histories, interpreter starts and PYTHONHASHSEED values of code that must run untraced "
           "(pandas/numpy/plumbum); nothing is left for a solver to decide (DESIGN.md §5)",
}


def main():
    checks = []
    for pid in ALL:
        if pid not in CHECKS:
            continue
        c = CHECKS[pid]
        checks.append({
            "property_id": pid,
            "quick_cmd": f"./check {pid} quick",
            "thorough_cmd": f"./check {pid} thorough",
            "evidence_file": f"/verif/evidence/{pid}.json",
            "replay_cmd_template": f"./check {pid} --replay {{path}}",
            "engine": c["engine"],
            "level_claimed": {"category": "model_checking", "text": c["text"], "design_ref": c["design"]},
            "level_note": c["note"],
            "technique": c["technique"],
        })
    na = [{"property_id": p, "reason": NA.get(p, PENDING_REASON)} for p in ALL if p not in CHECKS]
    m = {
        "version": 1,
        "setup_cmd": "./setup.sh",
        "hooks": {
            "guard": "DECAYLANGUAGE_VERIF",
            "enable": "no hook in /repo is needed: every substitution is a monkey-patch made inside the check's own process",
            "baseline_off_cmd": "cd /repo && /venv/bin/python -m pytest -ra -q -p no:cacheprovider --timeout=900 --continue-on-collection-errors",
            "source_commits": [],
            "add_only": True,
        },
        "engines": [
            {"name": "crosshair", "path": "/verif/engine/chrun.py", "serves_properties": sorted(p for p, c in CHECKS.items() if "crosshair" in c["engine"]),
             "kind_free_text": "Engine A: CrossHair symbolic execution (z3) of harness bodies calling the real functions"},
            {"name": "smt", "path": "/verif/engine/lexmodel.py", "serves_properties": sorted(p for p, c in CHECKS.items() if "smt" in c["engine"]),
             "kind_free_text": "Engine B: z3 encodings regenerated from the Lark grammar/lexer objects the repository builds"},
        ],
        "checks": checks,
        "notes": "Fix commits in /repo and known findings: /verif/known_findings.json; design and detection matrix: /verif/DESIGN.md",
        "not_applicable": na,
    }
    (HERE / "MANIFEST.json").write_text(json.dumps(m, indent=1) + "\n")
    try:
        import jsonschema
        jsonschema.validate(m, json.load(open("/root/.vp/MANIFEST.schema.json")))
        print("MANIFEST.json valid:", len(checks), "checks,", len(na), "not applicable")
    except ImportError:
        print("written (jsonschema not available)")


if __name__ == "__main__":
    main()
