"""C07 - global declarations are reported completely, later declarations winning."""
from engine import chrun, decsweep, larkcap
from engine.chrun import Harness
from harness import c07 as H

FUNCS = ["dec.get_aliases", "dec.get_charge_conjugate_defs", "dec.get_definitions", "dec.get_decays2copy_statements",
         "dec.get_charge_conjugate_decays", "dec.get_particle_property_definitions", "dec.get_pythia_definitions",
         "dec.get_jetset_definitions", "dec.get_lineshape_settings", "dec.get_lineshapePW_definitions", "dec.get_global_photos_flag",
         "decfile.lark rules define/alias/chargeconj/cdecay/copydecay/particle_def/pythia_def/jetset_def/ls_def/setlsbw/changemasslimit/inc_factor/setlspw/global_photos"]


def run(report, tier):
    thorough = tier == "thorough"
    report.assumptions += [
        "Lark implements its documented semantics (B1 witnesses replayed on the real parser)",
        "reference widths: particle package data base, PDG id looked up through EvtGenName2PDGIDBiMap, MeV * 0.001",
        "statement-level shapes are decided for token sequences of every length (B1); values are a pool of literal forms",
    ]
    L = larkcap.capture_dec()
    decsweep.b1(report, L, which=("vacuity", "equiv"), prop_note=" (all 16 statement kinds: which tokens are kept, in which order, under which node)")
    decsweep.lemmas(report, kinds=("keyword", "number"))
    h = Harness(name="declarations", module="harness.c07", body="body_decl", sig="sel: int", n_sel=H.N,
                claim="each of the 11 declaration queries reports every statement of its kind with names verbatim and numbers as numbers; "
                      "a later declaration of a name wins; repeated lineshape settings raise; global PHOTOS flag is the last one, off when "
                      "absent; Particle without width gives the reference width in GeV; JetSet integers stay int",
                bounds=f"{len(H.KINDS)} statement kinds x 0..4 statements x {len(H.PATTERNS)} name-repetition patterns x 4 placements "
                       f"relative to two Decay blocks x 4 value rotations over {len(H.VALUES)} literal forms",
                functions=FUNCS, timeout=900 if thorough else 480, concrete_body=True, sample={"kind": "jetset", "text": "JetSetPar MSTJ(26)=3"})
    chrun.run_harness(report, h)
