"""C07 - global declarations are reported completely, later declarations winning."""
from engine import chrun, decsweep, larkcap
from engine.chrun import Harness
from harness import c07 as H

FUNCS = ["dec.get_aliases", "dec.get_charge_conjugate_defs", "dec.get_definitions", "dec.get_decays2copy_statements",
         "dec.get_charge_conjugate_decays", "dec.get_particle_property_definitions", "dec.get_pythia_definitions",
         "dec.get_jetset_definitions", "dec.get_lineshape_settings", "dec.get_lineshapePW_definitions", "dec.get_global_photos_flag",
         "decfile.lark rules define/alias/chargeconj/cdecay/copydecay/particle_def/pythia_def/jetset_def/ls_def/setlsbw/changemasslimit/inc_factor/setlspw/global_photos"]


def run(report, tier):
    thorough = tier == "thorough"
    report.assumptions += [
        "Lark implements its documented semantics (B1 witnesses replayed on the real parser)",
        "reference widths: particle package data base, PDG id looked up through EvtGenName2PDGIDBiMap, MeV * 0.001",
        "statement-level shapes are decided for token sequences of every length (B1); values are a pool of literal forms",
    ]
    L = larkcap.capture_dec()
    decsweep.b1(report, L, which=("vacuity", "equiv"), prop_note=" (all 16 statement kinds: which tokens are kept, in which order, under which node)")
    decsweep.b2(report, L)                                          # names over the whole label alphabet, numbers as the listed literal forms
    decsweep.lemmas(report, kinds=("keyword", "number", "word"))
    h = Harness(name="declarations", module="harness.c07", body="body_decl", sig="sel: int", n_sel=H.N,
                claim="each of the 11 declaration queries reports every statement of its kind with names verbatim and numbers as numbers; "
                      "a later declaration of a name wins; repeated lineshape settings raise; global PHOTOS flag is the last one, off when "
                      "absent; Particle without width gives the reference width in GeV; JetSet integers stay int",
                bounds=f"{len(H.KINDS)} statement kinds x 0..4 statements x {len(H.PATTERNS)} name-repetition patterns x 4 placements "
                       f"relative to two Decay blocks x 4 value rotations over {len(H.VALUES)} literal forms",
                functions=FUNCS, timeout=900 if thorough else 480, concrete_body=True, sample={"kind": "jetset", "text": "JetSetPar MSTJ(26)=3"})
    chrun.run_harness(report, h)
    hv = Harness(name="values", module="harness.c07", body="body_values", sig="sel: int, x: float, y: float", n_sel=H.N_VALUES,
                 pre=["x == x", "y == y"],
                 claim="numbers are reported as the numbers written, for every value: Define, Particle mass / width (given, or reference width), "
                       "BlattWeisskopf, ChangeMassMin/Max, Pythia numeric values, branching fraction and numeric model parameters; later "
                       "Define wins; repeated BlattWeisskopf raises",
                 bounds="8 hand-built statement trees (the query functions run on them directly; tokens are stand-ins carrying the value)",
                 symbolic="two numeric token values: any non-NaN float (zero, negative, huge, subnormal, infinite included)",
                 functions=["dec.get_definitions", "dec.get_particle_property_definitions", "dec.get_lineshape_settings", "dec.get_pythia_definitions",
                            "dec.get_branching_fraction", "dec.get_model_parameters", "dec.DecayModelParamValueReplacement"],
                 shards=8, timeout=300, sample={"tree": "particle_def(MyRho, x, y)", "x": "symbolic", "y": "symbolic"})
    chrun.run_harness(report, hv)
