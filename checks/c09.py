"""C09 - decay chains are the faithful recursive unfolding of the decay tables."""
from engine import chrun
from engine.chrun import Harness
from harness import c09 as H

FUNCS = ["decaylanguage.dec.dec.DecFileParser.build_decay_chains", "DecFileParser._find_decay_modes (DecayNotFound)", "DecFileParser._decay_mode_details"]


def run(report, tier):
    report.assumptions += [
        "the oracle is the recursive definition in the statement, written in the harness",
        "no symbolic data (names are dictionary keys): the solver closes the enumeration of table sets; stable sets are looped inside a path",
    ]
    h = Harness(name="chains", module="harness.c09", body="body_chains", sig="sel: int", n_sel=H.N_CHAINS, concrete_body=True,
                claim="for every mother with a table and every stable set S: one entry per line in order with its bf, model, parameters; each "
                      "daughter bare when it has no table or is in S, otherwise the chain built for it with the same S (per position, also for "
                      "repeated daughters); mothers without table raise DecayNotFound",
                bounds=f"{H.N_CHAINS} acyclic table sets over 5 particles ({H.N_CODES} table shapes each: none, empty block, 1..5 lines, repeated "
                       "daughters, depth up to 5) x every mother x all 64 stable sets over the particles involved (given as list, tuple or set, or as one list / set object the "
                       "caller keeps and edits in place between consecutive calls) "
                       "x session history (fresh | another parser used before | the same parser parsed before without conjugates, queried, and "
                       "parsed again | the reverse)",
                functions=FUNCS, timeout=3000 if tier == "thorough" else 600, sample={"codes": [3, 4, 2, 1, 0], "stable": ["K_1(1270)+"]})
    chrun.run_harness(report, h)
    hv = Harness(name="chain-values", module="harness.c09", body="body_chain_values", sig="sel: int, x: float, y: float, z: float", n_sel=H.N_VALUES,
                 pre=["x == x", "y == y", "z == z"],
                 claim="every entry of a nested chain (repeated decaying daughters, an empty block, three stable sets) carries the branching "
                       "fraction and the numeric parameters of its line - for every value",
                 bounds="one hand-built table set of four particles behind a Lark stub x 3 stable sets",
                 symbolic="three numeric token values: any non-NaN float", functions=FUNCS, shards=3, timeout=300,
                 sample={"tree": "B0 -> D0 K_S0 D0 (bf x); D0 -> K_S0 pi0 K_S0 (bf y, params z x) | pi0 (bf z); K_S0 -> pi+ pi- (bf z)"})
    chrun.run_harness(report, hv)
