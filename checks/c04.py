"""C04 check: conjugation is a PDG-consistent involution at every layer."""
from engine import chrun
from engine.chrun import Harness
from harness import c04 as H

FUNCS = ["decaylanguage.utils.particleutils.charge_conjugate_name", "decaylanguage.decay.decay.DaughtersDict.charge_conjugate",
         "decaylanguage.decay.decay.DecayMode.charge_conjugate", "decaylanguage.decay.decay.DaughtersDict.__init__/__len__"]


def run(report, tier):
    thorough = tier == "thorough"
    report.functions += FUNCS
    report.assumptions += [
        "particle package tables (EvtGenName2PDGIDBiMap, PDG2EvtGenNameMap, Particle data base) are the reference for PDG ids",
        "Particle look-ups run untraced on concrete names (identity stubs)",
        "agreement with CDecay-created tables is checked under C03 (harness cdecay compares with DecayMode.charge_conjugate)",
    ]
    hs = [
        Harness(name="names", module="harness.c04", body="body_names", sig="sel: int", n_sel=H.N_NAMES,
                claim="for every installed EvtGen name / PDG name / unknown label: conjugate has the negated PDG id "
                      "(same name when self-conjugate), twice is the identity, unknown labels are wrapped unchanged under both namings - also the wrapped label "
                      "itself (wrapped again, never unwrapped, whatever was asked before), same answer when asked again",
                bounds=f"all {H.N_EVTGEN} EvtGen names, all {H.N_PDG} PDG names, {len(H.UNKNOWN_LABELS)} unknown labels",
                symbolic="none (names are dictionary keys; the solver drives and closes the enumeration)",
                shards=16, timeout=600, concrete_body=True, sample={"name": "anti-B_s0", "conjugate": "B_s0"}),
        Harness(name="multiset", module="harness.c04", body="body_multiset",
                sig="sel: int, m0: int, m1: int, m2: int, m3: int, bf: int, meta_i: int, meta_s: str",
                n_sel=H.N_MULTISET, pre=["len(meta_s) <= 3"],
                claim="DaughtersDict/DecayMode conjugation: every conjugate carries exactly its multiplicity; number of "
                      "particles, bf and every metadata entry preserved; original untouched; twice = identity",
                bounds=f"{H.N_MULTISET} four-name final states over two pools (EvtGen and PDG naming)",
                symbolic="four multiplicities (any int, <=0 meaning absent), bf (any int), one int and one str (len<=3) metadata value",
                shards=16, timeout=900 if thorough else 300,
                sample={"names": ["K+", "pi0", "anti-B_s0", "MyAlias"], "mult": "symbolic"}),
    ]
    for h in hs:
        chrun.run_harness(report, h)
