"""C15 - the chain graph has one node and one labelled edge per decay line."""
import shutil

from engine import chrun
from engine.chrun import Harness
from harness import c15 as H

FUNCS = ["decaylanguage.decay.viewer.DecayChainViewer.__init__/_build_decay_graph/iterate_chain/html_table_label", "viewer.counter (module-level)",
         "DecayChainViewer.to_string"]


def run(report, tier):
    report.assumptions += [
        "the DOT source is read back with three regular expressions (node, edge, cell); cell texts are compared through the particle "
        "package's EvtGen -> LaTeX -> HTML name map, the same map the viewer documents",
        "'accepted by Graphviz' is decided by the external `dot -Tcanon` binary on every 16th graph" +
        ("" if shutil.which("dot") else " - NOT AVAILABLE in this environment, that part is not checked"),
        "no symbolic data: chain dictionaries are generated from the acyclic table-set family of C09 with unique branching fractions per line",
    ]
    h = Harness(name="graph", module="harness.c15", body="body_graph", sig="sel: int", n_sel=H.N_GRAPH, concrete_body=True,
                claim="root node for the mother; per decay line at every depth exactly one node listing the daughters in order and exactly "
                      "one edge to it labelled str(bf) from the root or from the slot of the decaying daughter in its parent node; no other "
                      "nodes or edges; identifiers unique within a graph and across all graphs of the session; source accepted by dot",
                bounds=f"{H.N_GRAPH} table sets x up to 3 mothers x a rotating stable set (several lines per particle, repeated decaying "
                       "daughters, empty tables, names with EvtGen-specific spellings) + a chain from DecayChain.to_dict(); up to 4 graphs per path",
                functions=FUNCS, timeout=900 if tier == "thorough" else 600, sample={"chain": "B0sig -> MyD*- K_1(1270)+ ...", "lines": 7})
    chrun.run_harness(report, h)
    hn = Harness(name="graph-names", module="harness.c15", body="body_names", sig="sel: int", n_sel=H.N_NAMES, concrete_body=True,
                 claim="with every EvtGen name as a daughter cell (HTML spellings with entities, sub/superscripts, primes) the graph keeps the "
                       "line structure and the source is accepted by dot",
                 bounds=f"all {len(H.EVT)} EvtGen names, {H.CHUNK} per graph (one decaying daughter + a second line), every graph through dot -Tcanon",
                 functions=FUNCS, timeout=300, sample={"names": H.EVT[100:103]})
    chrun.run_harness(report, hn)
