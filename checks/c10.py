"""C10 - expanding decay modes enumerates every complete decay path exactly once."""
from engine import chrun
from engine.chrun import Harness
from harness import c09 as H

FUNCS = ["decaylanguage.dec.dec.DecFileParser.expand_decay_modes", "decaylanguage.decay.decay._expand_decay_modes",
         "decaylanguage.utils.utilities.DescriptorFormat.format_descriptor", "DecFileParser.build_decay_chains", "DecFileParser.dict_aliases"]


def run(report, tier):
    report.assumptions += [
        "oracle: independent recursive enumeration (multiset of descriptors) and the sum-of-products path count",
        "mothers whose path count exceeds 4000 are outside the size bound",
        "no symbolic data: the solver closes the enumeration of the table sets",
    ]
    h = Harness(name="expand-modes", module="harness.c09", body="body_expand", sig="sel: int", n_sel=H.N_CHAINS, concrete_body=True,
                claim="expand_decay_modes(M) is, as a multiset, exactly one descriptor per choice of one line for M and recursively for every "
                      "daughter that has lines (empty blocks and missing tables are stable); its length is the sum over lines of the product "
                      "of the daughters' counts; decaying aliases are shown under the aliased name, stable ones keep theirs; repeated call equal",
                bounds=f"{H.N_CHAINS} acyclic table sets over 5 particles (0..5 lines each, repeated daughters, up to 4 decaying daughters in a "
                       "line with 2-3 options each, a decaying alias at depth 1 and below, empty blocks) x every mother",
                functions=FUNCS, timeout=900 if tier == "thorough" else 600, sample={"codes": [6, 3, 4, 2, 1]})
    chrun.run_harness(report, h)
