"""C19 - C++ and Python GooFit outputs describe the same, self-contained model."""
from engine import chrun
from engine.chrun import Harness
from harness import c19 as H

FUNCS = ["decaylanguage.modeling.ampgen2goofit.ampgen2goofit / ampgen2goofitpy", "decaylanguage.modeling.goofit.GooFitChain.make_intro / make_pars / "
         "make_amplitude / to_goofit", "GooFitPyChain.make_intro / make_pars / make_amplitude / to_goofit", "goofit.programmatic_name"]


def run(report, tier):
    report.assumptions += [
        "these runs are solver-selected but concrete: pandas / numpy / plumbum cannot be traced, so there is no symbolic data",
        "the Python output is compiled and executed against a recording stand-in for the goofit module (every GooFit name the generator "
        "may use is pre-defined there, nothing else)",
        "the command-line entry point is run as a subprocess (same PYTHONHASHSEED) for every ninth file and the shipped model; its output "
        "must be the text of the function call",
        "the shipped model does not define the four K-matrix scalars sA_0, sA, s0_prod, s0_scatt: for it they count as supplied from outside",
        "outputs are compared after removing the timestamp line",
    ]
    h = Harness(name="whole", module="harness.c19", body="body_whole", sig="sel: int", n_sel=H.N_WHOLE, concrete_body=True,
                proxies={"dec": False, "particle": False, "amp": False},
                claim="both converters succeed; the text returned with ret_output=True is the text printed otherwise (and nothing is printed "
                      "then); both outputs contain the same event type, mass constants, resonance mass/width variables, fit parameters (name, "
                      "value, error, fixedness), parameter arrays and the same amplitudes (name, coefficient names *_r / *_i distinct, values, "
                      "fixedness, spin factors, lineshapes, permutation count); every symbol used by the C++ lineshapes is declared earlier; the "
                      "Python output compiles and runs against the GooFit API",
                bounds="72 generated files (3 amplitudes each out of the 12 of C18, 2 event-type orderings, parameter families: all / K-matrix only "
                       "without any constant line / none) + the shipped model models/DtoKpipipi_v2.txt; four conversions per file in one process",
                functions=FUNCS, timeout=1200, sample={"file": "models/DtoKpipipi_v2.txt"})
    chrun.run_harness(report, h)
