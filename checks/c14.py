"""C14 - descriptor format settings are scoped and validated."""
from engine import chrun
from engine.chrun import Harness
from harness import c14 as H

FUNCS = ["decaylanguage.utils.utilities.DescriptorFormat.__init__/__enter__/__exit__", "DescriptorFormat.set_config",
         "DescriptorFormat.format_descriptor", "decaylanguage.decay.decay.DecayChain.to_string"]


def run(report, tier):
    thorough = tier == "thorough"
    report.assumptions += [
        "patterns are a concrete pool (string.Formatter.parse is C code and realises symbolic strings): 4 valid pairs incl. escaped braces and "
        "daughters-first, 4 invalid pairs (missing placeholder in the first / second pattern, extra placeholder, positional field)",
        "observational stack model: after every step the class-level format and a rendered descriptor are compared with the model; no "
        "internal attribute of DescriptorFormat is inspected",
        "two context objects are created before anything else, under a format that is no longer in force when they are entered",
    ]
    L = 6 if thorough else 5
    body, n = ("body_hist6", H.N_PREFIX3) if thorough else ("body_hist5", H.N_PREFIX3)
    h = Harness(name=f"fmt-histories-{L}", module="harness.c14", body=body, sig="sel: int", n_sel=n, concrete_body=True,
                claim="leaving a context (normally or by exception, nested to any depth, fresh or re-used objects, an object nested in itself) "
                      "restores exactly the format in force at entry; an invalid pattern pair is rejected by set_config and by entering a "
                      "context and leaves the format unchanged; rendering always follows the format in force",
                bounds=f"every history of {L} steps over {H.N_OPS} operations {H.OPNAMES} = {H.N_OPS ** L} histories "
                       f"(selector = first 3 steps, all continuations run inside the path)",
                functions=FUNCS, timeout=1500 if thorough else 600, sample={"history": ["with A", "set2", "with A", "raise", "leave"]})
    chrun.run_harness(report, h)
