"""C18 - each amplitude is emitted with exactly its Bose-symmetrised permutations."""
from engine import chrun
from engine.chrun import Harness
from harness import c18 as H

FUNCS = ["decaylanguage.modeling.decay.ModelDecay.structure / list_structure / vertexes", "decaylanguage.utils.utilities.iter_flatten",
         "decaylanguage.modeling.amplitudechain.AmplitudeChain.L / L_range / ls_enum / expand_lines",
         "decaylanguage.modeling.goofit.GooFitChain + GooFitPyChain: decay_structure, formfactor, spindetails, spinfactors, make_spinfactor, "
         "make_linefactor, make_lineshape, make_amplitude, to_goofit, read_ampgen", "goofit.known_spinfactors"]
SIG = "sel: int, t0: int, t1: int, t2: int, t3: int, e0: int, e1: int, e2: int, e3: int"
NOPROXY = {"dec": False, "particle": False, "amp": False}


def run(report, tier):
    thorough = tier == "thorough"
    nt = 3
    report.assumptions += [
        "permutation harness: particle identities are integers ('types'); list_structure only compares them for equality",
        "emit harness: the expected spin-factor names are a pinned copy of today's known_spinfactors table; expected L values and "
        "lineshape kinds are written out per family member; particle look-ups are memoised per process",
        "mass-index convention as in the shipped model: the resonance is written before the bachelor particle",
    ]
    pre = [f"0 <= t0 < {nt} and 0 <= t1 < {nt} and 0 <= t2 < {nt} and 0 <= t3 < {nt}", f"0 <= e1 < {nt} and 0 <= e2 < {nt} and 0 <= e3 < {nt}"]
    hs = [
        Harness(name="perm", module="harness.c18", body="body_perm", sig=SIG, n_sel=len(H.PERM_CASES) * 3, pre=pre, proxies=NOPROXY,
                claim="list_structure returns exactly the one-to-one assignments of the amplitude's final-state particles to positions of "
                      "identical particles in the event type: each returned tuple is a typed injection, none twice, every typed injection is "
                      "returned; refused exactly when a leaf type is missing from the event type",
                bounds=f"all {len(H.SHAPES)} binary decay-tree shapes with 2..4 leaves x event types with up to 4 positions ({len(H.PERM_CASES)} "
                       f"cases) x the type of position 0 split over 3 shards; {nt} particle types",
                symbolic=f"the type of every leaf and of every other event-type position: any assignment over {nt} types (all multiplicity patterns)",
                functions=FUNCS[:2], shards=len(H.PERM_CASES) * 3, timeout=1500 if thorough else 600, path_timeout=60,
                sample={"shape": "((a,b),(c,d))", "event": "4 positions", "types": "symbolic"}),
        Harness(name="emit", module="harness.c18", body="body_emit", sig="sel: int", n_sel=H.N_EMIT, concrete_body=True, proxies=NOPROXY,
                claim="the code generated for an amplitude contains, per permutation, the amplitude's spin factor(s) carrying that permutation "
                      "and one lineshape per resonance of the declared kind with its orbital momentum and the invariant-mass indices of the same "
                      "permutation, and declares the number of permutations - for both languages, for a resonance given inline or as a separate "
                      "sub-line, with and without an unrelated file read earlier in the process",
                bounds="16 four-body amplitudes (incl. two resonances of the same name, an event type with two different repeated species and two amplitudes with three identical particles = 6 orderings; V V in S/P/D wave, V S, S S, A->V P (S and D wave), A->S P, T->V P, pseudoscalar->S P, "
                       "pseudoscalar->V P; both topologies; RBW, GSpline, kMatrix, FOCUS) x 4 event-type orderings (identical particles "
                       "adjacent or not) x 2 languages x inline/sub-line x fresh/after another file",
                functions=FUNCS, timeout=900, sample={"line": "D0{a(1)(1260)+[GSpline.EFF]{rho(770)0{pi+,pi-},pi+},K-}", "event": "pi+ K- pi+ pi-"}),
        Harness(name="order", module="harness.c18", body="body_order", sig="sel: int", n_sel=H.N_ORDER, concrete_body=True, proxies=NOPROXY,
                claim="in the converted file every amplitude appears once, in input order (both languages)",
                bounds="12 files of 4 amplitudes x 2 languages", functions=FUNCS, timeout=600, shards=12, sample={"amplitudes": 4}),
    ]
    for h in hs:
        chrun.run_harness(report, h)
