"""C05 - Define'd parameters and ModelAlias'd models mean exactly their expansion."""
from engine import chrun
from engine.chrun import Harness
from harness import c05 as H

FUNCS = ["decaylanguage.dec.dec.DecFileParser.parse (alias replacement, then parameter replacement)", "DecFileParser._dict_raw_model_aliases",
         "dec.get_model_aliases", "dec.get_definitions", "dec.DecayModelAliasReplacement", "dec.DecayModelParamValueReplacement",
         "dec.get_model_parameters", "DecFileParser._add_decays_to_be_copied/_add_charge_conjugate_decays (copied and conjugated tables)"]


def run(report, tier):
    thorough = tier == "thorough"
    report.assumptions += [
        "expansion is textual: a Define'd name is replaced by its last literal, a leading minus flips the literal's sign; float negation is exact",
        "statement shapes (define, model_alias, model, model_label) are covered by the grammar equivalence of C01/C07",
    ]
    hs = [
        Harness(name="visitor", module="harness.c05", body="body_visitor", sig="sel: int, v: float, w: float", n_sel=H.N_VISITOR,
                pre=["v == v", "w == w"],
                claim="alias replacement + parameter replacement on hand-built decay trees: a Define'd name becomes its value, '-name' the "
                      "negated value, other words stay verbatim, numeric literals become floats; one alias used by two lines gives two "
                      "independent, equal expansions; the alias definition is not modified",
                bounds=f"{len(H.OPTION_PATTERNS)} parameter-list patterns x (direct use | alias used twice | alias + direct)",
                symbolic="both Define values: any non-NaN float", functions=FUNCS[4:7], shards=8, timeout=600,
                sample={"pattern": ["-beta", "1.5", "dm"], "defs": "symbolic"}),
        Harness(name="expand", module="harness.c05", body="body_expand", sig="sel: int", n_sel=H.N_EXPAND, concrete_body=True,
                claim="a text using Define / ModelAlias and its hand-made textual expansion give identical decay tables (all mothers incl. "
                      "copied and conjugated ones); dict_definitions / dict_model_aliases report the last definition of each name",
                bounds=f"{len(H.DEF_VARIANTS)} Define sets (incl. redefinitions) x 4 placements x {len(H.ALIAS_VARIANTS)} alias sets (incl. "
                       f"aliases with Define'd and negated parameters, redefinition) x 3 placements x {len(H.USE_PATTERNS)} use patterns "
                       "(0..3 uses per block, 1..3 blocks) x (plain | CopyDecay | CopyDecay + CDecay) x 2 spellings of the Define'd names "
                       "(plain words | names with inner hyphens and slashes: dm-Bs, q/p_B-mix)",
                functions=FUNCS, timeout=900 if thorough else 480, sample={"defs": H.DEF_VARIANTS[2], "aliases": H.ALIAS_VARIANTS[2]}),
    ]
    for h in hs:
        chrun.run_harness(report, h)
