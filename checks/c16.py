"""C16 - printed decay-mode tables show every mode once, correctly ordered and scaled."""
from engine import chrun
from engine.chrun import Harness
from harness import c16 as H

FUNCS = ["decaylanguage.dec.dec.DecFileParser.print_decay_modes", "DecFileParser._decay_mode_details(display_photos_keyword)",
         "DecFileParser._find_decay_modes"]


def run(report, tier):
    report.assumptions += [
        "values are a finite grid of binary fractions (format(x, '.7g') would realise a symbolic float): sums and power-of-two scalings are "
        "exact, so the expected strings do not depend on the order of arithmetic",
        "rows are read back field by field (value, daughters, [PHOTOS], model, parameters); column widths are not part of the property",
    ]
    h = Harness(name="print", module="harness.c16", body="body_print", sig="sel: int", n_sel=H.N_PRINT, concrete_body=True,
                claim="one row per line, stable order by bf in the requested direction (file order among ties), values to 7 significant "
                      "digits: unchanged / summing to 1 / one common factor making the largest equal to scale; normalize+scale and scale "
                      "outside ]0,1] refused; daughters in order, model/parameters/PHOTOS shown when requested; stored values unchanged",
                bounds=f"1..5 lines x {len(H.BF_PATTERNS)} bf patterns (ties, equal values, 2^-36..1, literal spellings) x 16 option "
                       f"combinations x {len(H.SCALES)} scale values {H.SCALES} x mother by EvtGen or PDG name",
                functions=FUNCS, timeout=900 if tier == "thorough" else 480, sample={"bf": H.BF_PATTERNS[1], "ascending": True, "scale": 0.5})
    chrun.run_harness(report, h)
    if tier == "thorough":
        chrun.run_harness(report, Harness(
            name="print-all-orderings", module="harness.c16", body="body_print_all", sig="sel: int", n_sel=H.N_ALL, concrete_body=True,
            claim="as A[print] for every assignment of four lines to a four-value grid (all 75 weak orderings, every tie pattern, 256 assignments)",
            bounds=f"{H.N_ALL} option/scale/naming combinations x 256 value patterns (looped inside the path)", functions=FUNCS, timeout=1800,
            sample={"pattern": H.ALL_PATTERNS[27]}))
