"""C01 - decay tables read from a .dec file are exactly what the file states."""
from engine import chrun, decsweep, larkcap
from engine.chrun import Harness
from harness import c01 as H

PARSE_FUNCS = ["decaylanguage.dec.dec.DecFileParser.parse/_find_parsed_decays/_check_parsed_decays", "DecFileParser.list_decay_mother_names",
               "DecFileParser.number_of_decays", "DecFileParser.list_decay_modes", "DecFileParser._decay_mode_details",
               "DecFileParser.build_decay_chains", "dec.get_branching_fraction/get_final_state_particle_names/get_model_name/get_model_parameters",
               "dec.DecayModelParamValueReplacement", "dec.DecayModelAliasReplacement"]


def run(report, tier):
    thorough = tier == "thorough"
    report.assumptions += [
        "Lark implements its documented semantics for the grammar and lexer tables (model validated against every shipped .dec file)",
        "composition on paper: B1 + lexer lemmas => every text of the character-level statement language is tokenised as intended",
        "float() on a numeric literal is the meaning of 'equal to the numeric literal'",
        "lexemes longer than the lemma bound are outside the claim",
    ]
    L = larkcap.capture_dec()
    decsweep.b1(report, L, which=("vacuity", "equiv"))
    decsweep.b2(report, L)
    decsweep.lemmas(report, kinds=("word", "number", "keyword"))
    decsweep.validate_translator(report, L)
    t = 900 if thorough else 420
    hs = [
        Harness(name="tables/blocks", module="harness.c01", body="body_blocks", sig="sel: int", n_sel=H.N_BLOCKS,
                claim="one table per distinct mother, file order, first block kept, empty block = table without lines; every line once",
                bounds=f"every sequence of 0..{6 if thorough else 5} Decay blocks over 3 mother names x 3 interleavings with other statements; 0..2 lines per block",
                functions=PARSE_FUNCS, timeout=t, concrete_body=True, sample={"blocks": ["B0", "K~0", "B0"], "between": "Define/Alias"}),
        Harness(name="tables/lines", module="harness.c01", body="body_lines", sig="sel: int", n_sel=H.N_LINES,
                claim="each line reported once in file order with bf = float(literal), daughters verbatim, PHOTOS flag, model",
                bounds="one block with 0..5 lines; 12 numeric literal forms as bf; 0..3 daughters; PHOTOS on/off; rotating model names",
                functions=PARSE_FUNCS, timeout=t, concrete_body=True, sample={"lines": 5, "bf": "20.e12"}),
        Harness(name="tables/daughters", module="harness.c01", body="body_daughters", sig="sel: int", n_sel=H.N_DAU,
                claim="0..n daughters over the whole label alphabet are reported verbatim and in order",
                bounds="0..5 daughters from a 25-name pool that contains every character of the label alphabet",
                functions=PARSE_FUNCS, timeout=t, concrete_body=True, sample={"daughters": ["K~0", "Xi(c).b", "f'_0"]}),
        Harness(name="tables/model", module="harness.c01", body="body_model", sig="sel: int", n_sel=H.N_MODEL,
                claim="every published model name, with and without PHOTOS, with absent / numeric / word / Define'd / wrapped parameter "
                      "lists is reported verbatim with parameters in order (floats for literals, words verbatim, '' when absent)",
                bounds=f"{len(H.MODELS)} model names x PHOTOS x 6 parameter-list variants (up to 8 parameters)",
                functions=PARSE_FUNCS, timeout=t, concrete_body=True, sample={"model": "SSD_CP", "params": "dm 1.0 -beta undefined_name -dmx"}),
    ]
    hs.append(Harness(
        name="tree-values", module="harness.c01", body="body_tree_values", sig="sel: int, x: float, y: float, z: float", n_sel=H.N_TREE,
        pre=["x == x", "y == y", "z == z"],
        claim="downstream of Lark, for every numeric value: parse() on a hand-built tree reports the branching fraction and numeric "
              "parameters written, first block kept for a repeated mother, copied / conjugated tables and alias expansions carry the "
              "same numbers, Define'd and negated parameters resolved",
        bounds="4 hand-built trees (decay lines with PHOTOS / parameters / Define, repeated mother, CopyDecay + CDecay, ModelAlias used twice); "
               "Lark replaced by a stub returning the tree",
        symbolic="three numeric token values: any non-NaN float", functions=PARSE_FUNCS, shards=4, timeout=300,
        sample={"tree": "decay(B0, decayline(x, K+ pi-, PHOTOS, SVS_CP z word x dm)), define(dm, y)"}))
    for h in hs:
        chrun.run_harness(report, h)
