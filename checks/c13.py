"""C13 - a decay descriptor string determines the decay tree it was made from."""
from engine import chrun
from engine.chrun import Harness
from harness import c13 as H

FUNCS = ["decaylanguage.decay.decay.DecayChain.to_string", "DecayChain.to_dict", "decay._expand_decay_modes",
         "decaylanguage.utils.utilities.DescriptorFormat.format_descriptor / config / context manager"]


def run(report, tier):
    report.assumptions += [
        "the bracket reader in the harness splits at blanks outside round/square/curly brackets (particle names keep their own balanced "
        "parentheses) and recognises a sub-decay by the literal pieces of the second pattern",
        "no symbolic data: descriptors are strings; the solver closes the enumeration of shapes x name pools x patterns",
    ]
    h = Harness(name="descriptor", module="harness.c13", body="body_descr", sig="sel: int", n_sel=H.N_DESCR, concrete_body=True,
                claim="to_string() read back by bracket matching gives exactly the mother, the nesting and the daughter multiset at every "
                      "level; three constructions differing in daughter order and mapping order give one string; with user patterns the "
                      "first renders the top level and the second every nested level; after an in-place edit of the final state of any decaying "
                      "particle, top-level or nested (pop / clear+update / setdefault / popitem on the public Counter; every particle x every "
                      "edit, each on a fresh chain) the descriptor shows the edited tree",
                bounds=f"{len(H.STRUCTS)} chain structures (all DAG shapes up to 4 decaying particles incl. repeated decaying daughters with "
                       f"multiplicity 2, all trees with 5) x {len(H.POOLS)} name pools (parentheses, quotes, signs in names) x "
                       f"{len(H.PATTERNS)} pattern pairs (default, square brackets, bracket after the mother, escaped literal braces, daughters first)",
                functions=FUNCS, timeout=480, sample={"descriptor": "Upsilon(4S) -> (K_1(1270)+ -> (anti-K*0 -> K- pi+) pi+ pi0) gamma"})
    chrun.run_harness(report, h)
