"""C17 - AmpGen option files are read into the amplitudes and tables they state."""
import contextlib
import io

from engine import ampsweep, chrun, larkcap
from engine.chrun import Harness
from harness import c17 as H

FUNCS = ["decaylanguage.modeling.amplitudechain.AmplitudeChain.read_ampgen", "AmplitudeChain.from_matched_line", "AmplitudeChain.expand_lines",
         "decaylanguage.modeling.ampgentransform.AmpGenTransformer / get_from_parser", "decaylanguage.utils.particleutils.particle_from_string_name",
         "decaylanguage/data/ampgen.lark"]


def run(report, tier):
    report.assumptions += [
        "Lark implements its documented semantics (witnesses replayed on the real parser / scanner)",
        "particle and parameter names do not start with a numeric literal (no particle name does): such words are outside the name lemma",
        "Output \"...\" lines: the string lemma covers quoted names without quote / backslash / line end inside (escapes are outside)",
        "particle names the reader resolves AmpGen-style spellings to (K*(892)bar0 -> K*(892)~0, ...) are pinned in the harness as today's values",
        "particle_from_string_name is memoised per process in the read harness (about 1 s per call otherwise); pandas/numpy/particle run untraced",
        "a fix column is written as an integer, as AmpGen does",
    ]
    with contextlib.redirect_stdout(io.StringIO()):
        L = larkcap.capture_ampgen()
    ampsweep.b1(report, L)
    ampsweep.b2(report, L)
    ampsweep.lemmas(report)
    prox = {"dec": False, "particle": False, "amp": False}
    hs = [
        Harness(name="expand_lines", module="harness.c17", body="body_expand", sig="sel: int", n_sel=H.N_EXP, concrete_body=True, proxies=prox,
                claim="a daughter written without its own decay is replaced by every line given for that name: the amplitudes are the full "
                      "cartesian expansion, each once and in file order (also when the same undecayed name occurs several times in one line, "
                      "at several depths, with tags); the given lines are not modified",
                bounds=f"{len(H.MOTHERS)} mother lines x {len(H.R_ALTS)}x{len(H.S_ALTS)}x{len(H.T_ALTS)} sets of 0..3 alternative sub-lines for three "
                       "resonance names (nested to depth 3) x 2 file orders, hand-built chains with stand-in particles",
                functions=FUNCS[2:3], timeout=300, shards=8, sample={"mother": "M[D]{R,R}", "R": ["R{x,y}", "R[D;kMatrix.pole.0]{z,S}", "R{S,S}"]}),
        Harness(name="read", module="harness.c17", body="body_read", sig="sel: int", n_sel=H.N_READ, concrete_body=True, proxies=prox,
                claim="read_ampgen(text): event-type particles in order; one parameter row per parameter line (name, fixed flag, value, error) "
                      "and one constant row per constant line, in file order; one amplitude per complete line of the mother after expansion, in "
                      "file order, with the written tree / spin / lineshape tags and coupling = magnitude * exp(i phase) (real + i imaginary "
                      "with FastCoherentSum::UseCartesian 1); the option absent / 0 / 1 is read without error",
                bounds=f"{H.N_READ} generated option texts: {len(H.MOTHER_SETS)} sets of mother lines x 0..3 / 0..2 alternative sub-lines for two "
                       "resonance names x option absent/0/1 x plain or commented/blank-line layout x 3 parameter/constant tables x (first read of the process | after a "
                       "read of a text in which the same resonances have no lines of their own, class-level sets not reset)",
                functions=FUNCS, timeout=1200 if tier == "thorough" else 600,
                sample={"line": "D0{K(1)(1270)bar-,pi+} 0 -0.3 0.0 2 0.7 0.0", "sub-lines": 3}),
    ]
    for h in hs:
        chrun.run_harness(report, h)
