"""C12 - flattening multiplies branching fractions and keeps exactly the leaves."""
from engine import chrun
from engine.chrun import Harness
from harness import c12 as H

FUNCS = ["decaylanguage.decay.decay.DecayChain.flatten", "DecayChain.visible_bf", "DecayChain.__init__", "DecayMode.__init__",
         "DaughtersDict.__init__/__add__/__iadd__ (Counter arithmetic)"]
SIG = "sel: int, b0: int, b1: int, b2: int, b3: int, b4: int, b5: int, c0: int, c1: int, c2: int, c3: int, c4: int, c5: int, meta: int"
PRE = ["c0 >= 1 and c1 >= 1 and c2 >= 1 and c3 >= 1 and c4 >= 1 and c5 >= 1"]


def run(report, tier):
    thorough = tier == "thorough"
    report.assumptions += [
        "branching fractions are mathematical integers in the harness so that the product identity is exact (floats would round); "
        "the code under test only multiplies and exponentiates them",
        "multiplicities of *decaying* particles are concrete (1..3) because flatten() loops over them; leaf multiplicities are symbolic >= 1",
        "chains are acyclic; the stable set never contains the mother",
    ]
    fam, body, n = (H.FAM_THOROUGH, "body_thorough", H.N_THOROUGH) if thorough else (H.FAM_QUICK, "body_quick", H.N_QUICK)
    h = Harness(name="flatten", module="harness.c12", body=body, sig=SIG, n_sel=n, pre=PRE,
                claim="flatten(S): no sub-decay left; final state = multiset of leaves (stable-designated particles count as leaves); bf = "
                      "product of the bf of every decay in the unfolded tree, each as often as it occurs; independent of the order of the "
                      "mapping; top-level model information kept; original chain unchanged; visible_bf = the same product",
                bounds=f"{len(fam)} DAG shapes over 2..6 decaying particles (a particle may occur in several final states and depths), "
                       "multiplicities of decaying particles 1..3, 3 orders of the sub-decay mapping, every stable subset",
                symbolic="leaf multiplicities (any int >= 1) and the top-level metadata value (any int) always; branching fractions are symbolic "
                         "integers where z3's nonlinear arithmetic decides the product identity in time: all of them for 2-3 decaying particles, two "
                         "(rotating) for 4, one for 5-6, exponent <= 9, mapping given in topological order; otherwise distinct primes "
                         "(measured limits, see harness/c12.py)",
                functions=FUNCS, timeout=1500 if thorough else 600, path_timeout=60,
                sample={"shape": "R1 in M0; R2 in M0 and R1; R3 in R2", "stable": ["R2"], "bf": "symbolic"})
    chrun.run_harness(report, h)
    hs = Harness(name="flatten-small-floats", module="harness.c12", body="body_small", sig="sel: int", n_sel=H.N_QUICK, concrete_body=True,
                 claim="with small floating-point branching fractions (3*2^-14 ... down to products of 1e-170) the visible bf is the product to "
                       "a relative 1e-12: no rounding to decimal places, clipping or quantisation",
                 bounds=f"the quick family of {len(H.FAM_QUICK)} shapes x orders x stable subsets with six dyadic branching fractions",
                 functions=FUNCS, timeout=600, sample={"bf": [3 * 2.0 ** -14, 5 * 2.0 ** -16]})
    chrun.run_harness(report, hs)
