"""C02 - layout, comments, line ends and file packaging never change what is parsed."""
from engine import chrun, decsweep, larkcap
from engine.chrun import Harness
from harness import c02 as H

FUNCS = ["decaylanguage.dec.dec.DecFileParser.__init__ (file loop, End lines, BOM, newline between files)", "DecFileParser.from_string",
         "DecFileParser.parse", "decfile.lark: start, _NEWLINE, COMMENT, _SEMICOLON, _COMMA, %ignore WS_INLINE / COMMENT"]


def run(report, tier):
    thorough = tier == "thorough"
    report.assumptions += [
        "Lark implements its documented scanner / tree-construction semantics (witnesses replayed on the real objects)",
        "composition on paper: blanks/line-end/comment lemmas + B1-closure => the listed rewrites leave the kept-token sequence unchanged",
        "files are real files in a scratch directory read by the real constructor; rewriting the 25 000-line master files symbolically is out of reach",
    ]
    L = larkcap.capture_dec()
    decsweep.b1(report, L, which=("vacuity", "equiv", "closure"),
                prop_note=" (commas and line ends inside a parameter list, repeated semicolons, a final End line carry no tree content)")
    decsweep.lemmas(report, kinds=("newline", "comment", "blank", "keyword", "model", "word", "number"))   # every token class may be followed by CR, a comment or a blank
    decsweep.validate_translator(report, L)
    t = 1200 if thorough else 600
    hs = [
        Harness(name="edits", module="harness.c02", body="body_edits", sig="sel: int", n_sel=H.N_EDITS,
                claim="every combination of the 9 listed rewrites applied at every statement boundary gives the same snapshot of every "
                      "public query (tables, chains, expansions, printed tables, all declaration queries) as the plain layout",
                bounds=f"{len(H.BASES)} base texts x all 2^{len(H.EDITS)} combinations of {H.EDITS}",
                functions=FUNCS, timeout=t, concrete_body=True, sample={"edits": ["comments", "CRLF", "wrapped parameters"], "base": 0}),
        Harness(name="ctor", module="harness.c02", body="body_ctor", sig="sel: int", n_sel=H.N_CTOR,
                claim="a text split over 1..3 files at statement boundaries, each file possibly closed by its own End line (six spellings), "
                      "with/without UTF-8 BOM per file, LF or CRLF, parses to the same snapshot as the single string",
                bounds=f"{H.N_CTOR} packagings of {len(H.BASES)} base texts (split points x End variants x BOM flags x line ends)",
                functions=FUNCS, timeout=t, concrete_body=True, sample={"files": 2, "end": "\tEnd # last line", "bom": "first file"}),
    ]
    if thorough:
        hs.append(Harness(name="edits-local", module="harness.c02", body="body_edits_local", sig="sel: int", n_sel=H.N_LOCAL, concrete_body=True,
                          claim="one rewrite applied at a single statement (every statement position of every base text) on top of one rewrite "
                                "applied everywhere gives the same snapshot as the plain layout",
                          bounds=f"{H.N_LOCAL} combinations: 3 bases x 7 local rewrites x 16 positions x 9 global rewrites", functions=FUNCS,
                          timeout=1200, sample={"local": "wrapped parameters at statement 6", "global": "CRLF"}))
    for h in hs:
        chrun.run_harness(report, h)
