"""C11 - class, dictionary and parser forms of a decay convert into each other losslessly."""
from engine import chrun, common
from engine.chrun import Harness
from harness import c11 as H

FUNCS = ["decaylanguage.decay.decay.DaughtersDict.__init__/to_list/to_string/__len__/__add__/__iter__", "DecayMode.__init__/from_dict/from_pdgids/to_dict",
         "decay._build_decay_modes", "DecayChain.from_dict/to_dict"]


def run(report, tier):
    thorough = tier == "thorough"
    report.assumptions += [
        "multiplicities are concrete (<= 4) where to_dict / to_list iterate over them; branching fractions and metadata values are symbolic",
        "finding F4 (a decaying particle occurring twice cannot be rebuilt from its own dictionary) is tolerated only with its exact error "
        "message and only for chains of that class; the to_dict half is checked for those chains too",
    ]
    if H.probe_f4():
        report.known("DecayChain.from_dict(to_dict()) raises 'Input is not a single decay chain!' for "
                     "DecayChain('D0', {D0 -> pi0 pi0, pi0 -> gamma gamma}) (repeated decaying particle)", fid="F4")
    hs = [
        Harness(name="mode", module="harness.c11", body="body_mode", sig="sel: int, bf: float, mi: int, ms: str", n_sel=H.N_MODE,
                pre=["bf == bf", "len(ms) <= 3"],
                claim="DecayMode.to_dict has bf, canonical daughters, model information and every metadata entry; from_dict(to_dict()) equals "
                      "the original (bf, daughters multiset, all metadata incl. nested user values) and shares nothing with the dictionary",
                bounds=f"{len(H.FS_PATTERNS)} final states (multiplicities <= 3) x {H.META_SHAPES} metadata shapes",
                symbolic="bf (any non-NaN float), one int and one str (len <= 3) metadata value, also nested in lists / dicts; None as a top-level and a nested metadata value",
                functions=FUNCS, shards=14, timeout=600, sample={"fs": {"K+": 1, "K-": 2}, "meta": "zfit={B0: ms, n: [mi, mi]}"}),
        Harness(name="chain", module="harness.c11", body="body_chain", sig="sel: int, b0: int, b1: int, b2: int, b3: int, b4: int", n_sel=H.N_CHAIN,
                claim="DecayChain.to_dict is the recursive per-position unfolding (also when a decaying particle occurs several times); "
                      "from_dict(to_dict()) has the same mother, sub-decays, branching fractions, daughter multisets and metadata",
                bounds=f"all {len(H.TREES)} tree shapes with 1..5 decaying particles x 3 orders of the mapping; {len(H.REPEATS)} shapes with "
                       "repeated decaying particles x multiplicity 1/2 (from_dict half = finding F4)",
                symbolic="all five branching fractions (any int)", functions=FUNCS, timeout=600,
                sample={"shape": "D*+ -> D0 pi+, D0 -> K_S0 ..., K_S0 -> pi0 ...", "bf": "symbolic"}),
        Harness(name="parser-chain", module="harness.c11", body="body_parser_chain", sig="sel: int", n_sel=H.N_PARSER, concrete_body=True,
                claim="a single-line chain built by the parser -> DecayChain.from_dict -> to_dict gives the same dictionary up to daughter order",
                bounds=f"{H.N_PARSER} single-line table sets over 5 particles (depth <= 4, PHOTOS on/off, with/without parameters)",
                functions=FUNCS + ["DecFileParser.build_decay_chains"], timeout=480, sample={"text": "Decay B0sig / 0.1 MyD*- pi+ K_1(1270)+ PHSP;"}),
        Harness(name="ctor", module="harness.c11", body="body_ctor", sig="sel: int", n_sel=H.N_CTOR, concrete_body=True,
                claim="a final state built from a string, list, tuple or name->count mapping is the same, insensitive to the order given, counts "
                      "multiplicities (zero / negative counts dropped), lists daughters in one canonical order; from_pdgids gives the names of "
                      "the EvtGen table for every PDG id in it",
                bounds=f"{len(H.STATES)} final states x 6 permutations; all {len(H.EVT)} PDG ids of the EvtGen table",
                functions=FUNCS, timeout=480, sample={"ids": [421, -321, 421]}),
    ]
    hs.append(Harness(name="counts", module="harness.c11", body="body_counts", sig="sel: int, m0: int, m1: int, m2: int", n_sel=H.N_COUNTS,
                      claim="a final state counts multiplicities: entries with a count <= 0 are dropped, the length is the sum of the counts, "
                            "adding two final states adds the counts per particle and leaves the operands unchanged",
                      bounds="4 name triples", symbolic="three multiplicities: any int (unbounded, also zero and negative)", functions=FUNCS,
                      shards=4, timeout=300, sample={"names": ["K+", "K-", "pi0"], "counts": "symbolic"}))
    for h in hs:
        chrun.run_harness(report, h)
