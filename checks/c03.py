"""C03 - CDecay yields the exact charge conjugate of the referenced decay table."""
from engine import chrun
from engine.chrun import Harness
from harness import c03 as H

FUNCS = ["decaylanguage.dec.dec.DecFileParser._add_charge_conjugate_decays", "DecFileParser._add_decays_to_be_copied",
         "dec.ChargeConjugateReplacement", "dec.find_charge_conjugate_match", "utils.particleutils.charge_conjugate_name",
         "DecFileParser.parse(include_ccdecays=...)", "dec.get_charge_conjugate_defs", "dec.get_charge_conjugate_decays"]


def run(report, tier):
    thorough = tier == "thorough"
    report.assumptions += [
        "conjugates of the pool names are a hand-written table; for the whole-table variant the reference is the particle package's PDG ids",
        "names are dictionary keys, so they cannot be symbolic: for the name-level families the solver drives and closes the enumeration; "
        "the numeric content of the tables is symbolic in A[cdecay-values]",
        "each name is the subject of at most one CDecay statement (quantifier of the property)",
    ]
    hs = [
        Harness(name="cdecay", module="harness.c03", body="body_cdecay", sig="sel: int", n_sel=H.N_CDECAY, concrete_body=True,
                claim="CDecay X gives X the source's lines in order with identical bf / PHOTOS / model / parameters and every daughter "
                      "conjugated by the same rule (ChargeConj either orientation, else PDG id, self-conjugate unchanged, unknown marked); "
                      "Decay X wins over CDecay X; no source -> nothing added; source untouched; switch off -> nothing added; agrees with "
                      "DecayMode.charge_conjugate",
                bounds=f"{len(H.PAIRS)} (X, source) pairs (PDG pair, aliased pair in both ChargeConj orientations, unknown names) x "
                       f"{len(H.LINESETS)} source tables x 4 statement orders x 0..4 unrelated tables x source via Decay / CopyDecay / absent "
                       "x own Decay block or not x include_ccdecays on/off x (fresh session | after parsing another file that pairs the same names differently)",
                functions=FUNCS, timeout=900 if thorough else 480, sample={"X": "MyAntiD0", "source": "MyD0", "ChargeConj": "MyAntiD0 MyD0"}),
        Harness(name="cdecay-names", module="harness.c03", body="body_cdecay_names", sig="sel: int", n_sel=H.N_NAMES, concrete_body=True,
                claim="a daughter drawn from the whole EvtGen name table is conjugated by CDecay to the name with the negated PDG id "
                      "(same name when self-conjugate, ChargeConj(name) when unknown)",
                bounds=f"all {H.N_NAMES} EvtGen names in one daughter slot (names in the lexical classes F14a/c skipped)",
                functions=FUNCS, timeout=600, sample={"daughter": "anti-Xi_c0"}),
    ]
    hs.append(Harness(name="cdecay-multi", module="harness.c03", body="body_cdecay_multi", sig="sel: int", n_sel=H.N_MULTI, concrete_body=True,
                      claim="with several CDecay statements in one file each is decided on its own: X gets the conjugate of ITS source, nothing "
                            "without a source, its own Decay block wins - the set of tables is exactly the expected one and no table sits under "
                            "another statement's name",
                      bounds=f"{len(H.MULTI)} (X, source) pairs whose names sort differently from their statement order, each in {H.N_FATES} fates "
                             "(absent | CDecay with source | CDecay without source | CDecay + own Decay block, with / without source) x 3 statement orders",
                      functions=FUNCS, timeout=600, sample={"text": "CDecay B- (no Decay B+) / CDecay D*- / Decay D*+ ..."}))
    hs.append(Harness(name="cdecay-mothers", module="harness.c03", body="body_cdecay_mother", sig="sel: int", n_sel=H.N_NAMES, concrete_body=True,
                      claim="CDecay X for every EvtGen name X with a distinct antiparticle finds the table of the particle with the negated PDG id "
                            "and conjugates it; for self-conjugate / unknown names nothing is created under a guessed name",
                      bounds=f"all {H.N_NAMES} EvtGen names as the subject of a CDecay statement", functions=FUNCS, timeout=600,
                      sample={"text": "Decay anti-Xi_c0 / CDecay Xi_c0"}))
    hs.append(Harness(name="cdecay-values", module="harness.c03", body="body_cdecay_values", sig="sel: int, x: float, y: float, z: float",
                      n_sel=H.N_VALUES, pre=["x == x", "y == y", "z == z"],
                      claim="the conjugated table (also the conjugate of a copied table) has the lines of its source in order with identical "
                            "branching fractions, PHOTOS flags, models and parameters - for every numeric value; the source is untouched",
                      bounds="one aliased source table of three lines behind a Lark stub x ChargeConj in both orientations x CopyDecay + CDecay",
                      symbolic="three numeric token values (branching fractions and parameters): any non-NaN float", functions=FUNCS,
                      shards=3, timeout=300, sample={"tree": "CDecay MyAntiD0 / Decay MyD0 (x K- pi+ MyK+ PHOTOS SSD_CP y word z; ...)"}))
    for h in hs:
        chrun.run_harness(report, h)
