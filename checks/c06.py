"""C06 - every supported model name is recognised as itself; unknown models are rejected."""
from engine import chrun, decsweep, larkcap
from engine.chrun import Harness
from harness import c06 as H

FUNCS = ["decaylanguage.dec.dec.DecFileParser.parse", "DecFileParser.load_additional_decay_models",
         "DecFileParser._generate_edit_terminals_callback", "dec.DecayModelAliasReplacement._replacement", "dec.get_model_name"]

QUICK_FAMILIES = [H.FAMILY, ("PHSP-EXT", "SVS_CP2", "B", "BT", "VSS-MIX", "HELAMP_", "a-b-c", "LbAmpGen2")]


def thorough_families():
    """for every published name n: n-X, n_X, n2 and n without its last character (when that is not published), 24 names per family"""
    names = []
    for n in H.MODELS:
        for c in (n + "-X", n + "_X", n + "2", n[:-1]):
            if c and c not in H.MODELS and c not in names and c[-1] != "-" and len(c) > 1:
                names.append(c)
    # statement level ("every name the user registers"): names with characters that are special in regular expressions
    return [tuple(names[i:i + 24]) for i in range(0, len(names), 24)] + [("MY.MODEL", "A+B", "PHSP.2", "B(s)X")]


def run(report, tier):
    thorough = tier == "thorough"
    report.assumptions += [
        "Lark implements its documented scanner semantics (model replayed on the real scanner for every witness)",
        "a symbolic user-registered name cannot be carried through re.escape / sorted / join by CrossHair; instead the real callback is "
        "run with a marker name of each length and the marker's literal characters in the resulting MODEL_NAME alternation are replaced by "
        "z3 integers (engine/symname.py): position in the alternation, escaping and word boundary are the real ones, the name is symbolic; "
        "concrete adversarial families are kept as a cross-check; names are registered in one call for these lemmas",
        "F14d/F14e classes (non-word character at the model-name boundary) are known findings and excluded from the lemmas after "
        "the solver has exhibited a member",
    ]
    decsweep.lemmas(report, kinds=("model", "word"), label="published names")
    fams = QUICK_FAMILIES + (thorough_families() if thorough else [])
    for i, fam in enumerate(fams):
        decsweep.lemmas(report, extra=fam, kinds=("model", "word"), label=f"family {i}: {', '.join(fam[:4])}...")
    # a symbolic registered name of every length up to the bound (the solver looks for the colliding names itself)
    from engine import symname
    symname.run(report, lengths=tuple(range(1, 11 if thorough else 7)))
    # the trailing-dash class needs a registered name to show
    decsweep.lemmas(report, extra=("MY-", "PHSP-"), kinds=("model",), label="registered names ending in '-'")
    t = 900 if thorough else 420
    hs = [
        Harness(name="accept", module="harness.c06", body="body_accept", sig="sel: int", n_sel=H.N_ACCEPT,
                claim="every published and registered name is accepted in model position with/without PHOTOS and parameters, next to "
                      "labels that extend model names, and reported verbatim (also when user names are registered)",
                bounds=f"{len(H.ALL)} names x PHOTOS x 3 parameter variants x family not registered / registered in one call / in two calls",
                functions=FUNCS, timeout=t, concrete_body=True, sample={"name": "CB3PI-MPP", "registered": list(H.FAMILY)}),
        Harness(name="reject", module="harness.c06", body="body_reject", sig="sel: int", n_sel=H.N_REJECT,
                claim="a near-miss unknown word in model position makes parse() raise (ValueError or lark UnexpectedInput) unless a "
                      "ModelAlias of that spelling exists, in which case it means the aliased model; never another model",
                bounds=f"{len(H.MODELS)} names x {len(H.EDITS)} edits x alias defined or not x with/without parameters",
                functions=FUNCS, timeout=t, concrete_body=True, sample={"word": "PHSPX", "edit": "append-X"}),
    ]
    for h in hs:
        chrun.run_harness(report, h)
