"""C08 - copied and derived tables are independent; queries never change the parser."""
from engine import chrun
from engine.chrun import Harness
from harness import c08 as H

FUNCS = ["decaylanguage.dec.dec.DecFileParser (all public queries)", "DecFileParser._add_decays_to_be_copied", "DecFileParser._add_charge_conjugate_decays",
         "DecFileParser.parse (deepcopy of alias definitions, re-parse)", "DecFileParser.build_decay_chains", "DecFileParser.expand_decay_modes",
         "DecFileParser.print_decay_modes", "decay.decay._expand_decay_modes (in-place replacement)"]


def run(report, tier):
    thorough = tier == "thorough"
    report.assumptions += [
        "answers are compared observationally (snapshot of every public query) with a freshly parsed instance, so a correct cache would not alarm",
        "histories of length two (every ordered pair of queries, each result modified in place before the next call); longer histories follow "
        "only under the stated induction argument: after each step the instance is observationally equal to a fresh one",
        "the in-place modification uses a sentinel value (no symbolic data is left once the pair of operations is chosen)",
    ]
    if thorough:
        chrun.run_harness(report, Harness(
            name="seq3", module="harness.c08", body="body_seq3", sig="sel: int", n_sel=H.N_SEQ3, concrete_body=True,
            claim="as A[seq] for every ordered triple of query call shapes", bounds=f"{len(H.TEXTS)} texts x {H.N_OPS}^3 ordered triples",
            functions=FUNCS, timeout=2400, sample={"ops": 3}))
    hs = [
        Harness(name="seq", module="harness.c08", body="body_seq", sig="sel: int", n_sel=H.N_SEQ, concrete_body=True,
                claim="for every ordered pair of public queries (28 call shapes incl. chain building with/without stable particles, mode "
                      "expansion, printing) with the returned structures modified in place, the same call repeated and every other query "
                      "answer exactly like a freshly parsed instance",
                bounds=f"{len(H.TEXTS)} texts combining Decay, CopyDecay, CDecay, ModelAlias, Define x {H.N_OPS} x {H.N_OPS} ordered pairs",
                functions=FUNCS, timeout=900 if thorough else 600, sample={"ops": ["build_decay_chains(first, stable)", "expand_decay_modes(last)"]}),
        Harness(name="alias", module="harness.c08", body="body_alias", sig="sel: int", n_sel=H.N_ALIAS, concrete_body=True,
                claim="no Tree / Token / children-list object is shared between any two decay tables (copied, conjugated or explicit) nor with "
                      "the ModelAlias definitions; CopyDecay NEW OLD equals OLD but for the mother; parsing twice gives the same answers",
                bounds=f"{len(H.TEXTS)} texts x (parse once | parse twice)", functions=FUNCS, timeout=300, shards=8,
                sample={"text": "CopyDecay MyD+ D+ / CDecay MyD-"}),
    ]
    hs.append(Harness(name="pure-values", module="harness.c08", body="body_pure", sig="sel: int, v: int", n_sel=H.N_PURE,
                      claim="whatever value is written into every position of a returned structure, it never comes back from the same or "
                            "another query, and all answers stay those of a fresh instance",
                      bounds=f"{len(H.TEXTS)} texts x {H.N_OPS} query call shapes; the post-processing in dec.py runs traced",
                      symbolic="the value written into the returned structures: any int (object identity is tracked)", functions=FUNCS,
                      timeout=600, sample={"op": "build_decay_chains(first)", "value": "symbolic"}))
    for h in hs:
        chrun.run_harness(report, h)
