#!/bin/bash
# Builds /verif/.venv: an overlay on the repository's own environment (/venv) plus crosshair-tool and z3 from the
# offline wheelhouse. Nothing is fetched.
set -e
cd "$(dirname "$(readlink -f "$0")")"
if [ -x .venv/bin/python ] && .venv/bin/python -c "import crosshair, z3, lark, decaylanguage" 2>/dev/null; then
  echo "venv ok"; exit 0
fi
rm -rf .venv
/venv/bin/python -m venv .venv
SP=$(.venv/bin/python -c "import sysconfig; print(sysconfig.get_paths()['purelib'])")
echo "import site; site.addsitedir('/venv/lib/python3.12/site-packages')" > "$SP/_overlay.pth"
PIP_NO_INDEX=1 .venv/bin/pip install -q --no-index --find-links /opt/veriftools/wheels crosshair-tool z3-solver
.venv/bin/python -c "import crosshair, z3, lark, decaylanguage; print('venv built', crosshair.__version__, z3.get_version_string())"
