#!/bin/bash
# tools/try_patch.sh <patch.diff> <ID> [<ID>...]  : apply a seeded change to /repo, run the quick checks, undo it.
# (evidence files written during such a run are restored from git afterwards)
set -u
PATCH=$(readlink -f "$1"); shift
cd /verif
if ! git -C /repo diff --quiet; then echo "/repo is dirty"; exit 2; fi
git -C /repo apply "$PATCH" || { echo "patch does not apply"; exit 2; }
trap 'git -C /repo checkout -- . ; git -C /verif checkout -- evidence 2>/dev/null' EXIT
for id in "$@"; do
  ./check "$id" ${TIER:-quick} > /tmp/try_$id.log 2>&1; rc=$?
  echo "== $id exit=$rc $(grep -c '^VIOLATION' /tmp/try_$id.log) violation lines"
  grep -E "VIOLATED|HARNESS-ERROR|inconclusive " /tmp/try_$id.log | cut -c1-400 | head -5
  tail -1 /tmp/try_$id.log
done
