#!/bin/bash
# tools/verify_seed.sh <ID> <mX> : independent confirmation of a seeded change produced by a sub-agent.
#   fresh worktree of /repo HEAD -> apply patch -> full test suite (must keep 282 passing) -> demo must fail
#   -> clean tree: demo must pass.  On success the change is stored under /verif/seeded/<ID>-<mX>/.
set -u
ID=$1; M=$2
SRC=${WTROOT:-/tmp/wt}/$ID/_out/$M
WT=/tmp/wt/verify3_${ID}_$M
OUT=/verif/seeded/$ID-$M
[ -f $SRC/patch.diff ] || { echo "$ID $M: no patch"; exit 2; }
git -C /repo worktree add -q --detach $WT HEAD || exit 2
cp /repo/src/decaylanguage/_version.py $WT/src/decaylanguage/_version.py
cleanup() { git -C /repo worktree remove --force $WT 2>/dev/null; }
trap cleanup EXIT
cd $WT
run_demo() { (cd $SRC && PYTHONPATH=$WT/src timeout 600 /venv/bin/python demo.py >/tmp/demo_${ID}_$M.log 2>&1); echo $?; }
clean_rc=$(run_demo)
if ! git apply --3way $SRC/patch.diff 2>/tmp/apply_${ID}_$M.log && ! git apply $SRC/patch.diff 2>>/tmp/apply_${ID}_$M.log; then echo "$ID $M: patch does not apply to current HEAD"; exit 3; fi
git diff HEAD -- src > /tmp/patch_${ID}_$M.diff
mut_rc=$(run_demo)
PYTHONPATH=$WT/src /venv/bin/python -m pytest -q -p no:cacheprovider --timeout=900 -x --deselect tests/dec/test_dec.py::test_particle_property_definitions --deselect tests/test_convert.py::test_full_convert > /tmp/tests_${ID}_$M.log 2>&1
tests=$(tail -1 /tmp/tests_${ID}_$M.log)
echo "$ID $M: demo clean rc=$clean_rc mutated rc=$mut_rc tests: $tests"
if [ "$clean_rc" = 0 ] && [ "$mut_rc" != 0 ] && echo "$tests" | grep -q "282 passed" && ! echo "$tests" | grep -q failed; then
  mkdir -p $OUT
  cp /tmp/patch_${ID}_$M.diff $OUT/patch.diff; cp $SRC/demo.py $OUT/demo.py
  python3 - $SRC/meta.json $OUT/meta.json "$ID" "$M" "$tests" <<'PY'
import json, sys
src, dst, pid, m, tests = sys.argv[1:6]
try: meta = json.load(open(src))
except Exception: meta = {}
meta = {"property": pid, "seed": m, "summary": meta.get("summary"), "needs": meta.get("needs"), "files": meta.get("files"),
        "author": "independent sub-agent given only the property text and a scratch worktree",
        "agent_verified": meta.get("verified"),
        "confirmed_by_me": f"tools/verify_seed.sh {pid} {m}: fresh worktree of /repo HEAD; demo.py exit 0 on the clean tree, non-zero with patch.diff applied; "
                           f"full suite with the patch (two environmental failures deselected): {tests}",
        "detected_by": None}
json.dump(meta, open(dst, "w"), indent=1)
PY
  echo "$ID $M: KEPT -> $OUT"
else
  echo "$ID $M: REJECTED"
fi
