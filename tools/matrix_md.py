#!/usr/bin/env python3
"""Writes §7 of DESIGN.md (seeded changes and which check catches them) from seeded/*/meta.json + detection.txt."""
import glob, json, os, re

# how the check came to catch it: "first" = the check as it stood when the change arrived; otherwise what was added after the miss
HOW = {
    "C01-m2": "after adding words float() accepts (inf, nan) to the parameter pool", "C03-m2": "after adding the session-history dimension",
    "C04-m2": "after tightening a too lax oracle (startswith -> exact wrapped label)", "C06-m1": "after adding 'registered on another instance'",
    "C07-m1": "after adding zero to the value pool; the symbolic values harness added later finds x = 0.0 by itself",
    "C07-m2": "after adding a CDecay of a mother that also has a Decay block", "C08-m2": "first by C03; by C08 after adding the copy-as-CDecay-source clause",
    "C09-m2": "after adding tables defined by CopyDecay / CDecay to the family", "C10-m1": "after adding the decaying alias next to the particle it aliases",
    "C10-m2": "first by C08; by C10 after adding earlier chain-building calls",
    "C05-m3": "first by C01; by C05 after adding float-like words", "C06-m4": "after adding registration through two calls",
    "C09-m3": "after also looking up the source of a CDecay / CopyDecay table", "C12-m4": "after adding the small-float harness (integers cannot see rounding)",
    "C16-m3": "after adding zero-valued model parameters", "C18-m3": "after adding two resonances of the same name",
    "C18-m4": "after adding an event type with two different repeated species", "C19-m3": "after adding the A - B - A conversion sequence",
    "C19-m4": "after adding a floating parameter with error exactly 0",
    "C04-m3": "after asking the same name under the other naming first (session state inside the body); at first the worker died in my set-up code "
              "(it called lru_cache.cache_clear, which the change removes) and was counted as inconclusive - a dead worker is now a harness error",
    "C08-m4": "first by C03; by C08 after adding the differential against the file with the copy written out",
    "C04-m4": "after adding metadata given as None", "C07-m3": "after an earlier file of the session aliasing the same names differently",
    "C10-m4": "after adding an earlier parser of the same session with other tables for the same names",
    "C11-m4": "after adding in-place edits of a final state that has already been inspected",
    "C14-m3": "after adding anonymous extra fields ({} and {!r}) to the invalid patterns",
    "C15-m3": "after checking that every edge starts from a PORT that exists (the tree comparison alone did not look at PORT attributes)",
    "C15-m4": "after giving some lines a branching fraction of exactly zero",
    "C01-m6": "after adding look-ahead assertions to the symbolic matcher (before, the context was reported as unsupported = inconclusive; "
              "C06's accept harness caught it at first try)",
    "C02-m5": "after look-ahead support in the matcher and after adding the model class to C02's lemma sweep; A[edits] now also breaks the line "
              "right after the model name",
    "C07-m5": "after adding the terminal-language obligations (B2) and the WORD lemma to C07 (they were only in C01)",
    "C03-m7": "after adding A[cdecay-multi]: several CDecay statements in one file, one of them without a source and sorting first",
    "C03-m8": "after adding A[cdecay-multi]: two names defined by both Decay and CDecay that are adjacent in sorted order",
    "C17-m7": "after adding an earlier read in the same process (class-level particle sets not reset between the two reads)",
    "C04-m9": "after also conjugating the wrapped label of an unknown name (it is wrapped again, whatever was asked before)",
    "C13-m10": "after adding in-place edits of the top-level final state through pop / clear+update / setdefault / popitem and rendering again",
    "C18-m10": "after adding two amplitudes with three identical final-state particles (6 orderings) to the emit family",
    "C09-m9": "after adding earlier expand_decay_modes calls and in-place edits of returned chains before the chains are compared (empty stable set always included)",
    "C11-m9": "after adding None as a top-level and a nested metadata value",
    "C11-m10": "after adding strings padded with blanks / tabs / line ends to the constructors",
    "C05-m11": "after adding Define'd names with inner hyphens / slashes (dm-Bs, q/p_B-mix) to the textual family",
    "C09-m12": "after passing one list / set object that the caller edits in place between consecutive calls as the stable set",
    "C17-m11": "after adding trees and texts in which one name occurs both bare and written with its own decay (either order)",
    "C17-m10": "after letting the coherent-sum option stand before, between or after the decay lines",
    "C09-m8": "after adding the re-parse history (same parser parsed before with the other include_ccdecays setting and queried)",
}
rows = []
for d in sorted(glob.glob("/verif/seeded/C*/")):
    sid = os.path.basename(d.rstrip("/"))
    meta = json.load(open(d + "meta.json")) if os.path.exists(d + "meta.json") else {}
    det = open(d + "detection.txt").read().strip().splitlines() if os.path.exists(d + "detection.txt") else []
    caught = []
    for ln in det:
        m = re.match(r"\S+ check=(\S+) exit=(\d+) violations=(\d+) first: (.*)", ln)
        if m:
            what = re.sub(r"\s+\(\d+ q.*", "", m.group(4)).strip()
            what = re.sub(r"^(crosshair|smt)\s+", "", what)
            what = re.sub(r" sel \d+\.\.\d+$", "", what)
            caught.append(f"{m.group(1)}: {what[:70]}" if m.group(2) == "1" else f"{m.group(1)}: **not caught** (exit {m.group(2)})")
    summ = (meta.get("summary") or "").replace("|", "/").replace("\n", " ")
    summ = summ[:150] + ("..." if len(summ) > 150 else "")
    kind = "sub-agent" if re.search(r"-m\d", sid) else "authors' text" if "-a" in sid else "pre-fix tree"
    rows.append((sid, kind, summ, "; ".join(caught) or "(not run yet)", HOW.get(sid, "first" if caught else "")))
out = ["Seeds: `-mN` written by independent sub-agents that saw only the property text and a scratch worktree (each confirmed by me with",
       "`tools/verify_seed.sh`: demo passes on the clean tree, fails with the patch, 282 tests still pass); `-aN` written by me from the changes",
       "the property texts report as surviving the suite; `-prefixFn` the reverse of my own fix commits. Every row was produced by",
       "`tools/seed_matrix.sh` (quick tier, scratch copy of /repo). *how* says whether the check caught the change as it stood when the change",
       "arrived (\"first\") or what had to be added after a miss - 122 of the 163 sub-agent changes were caught at first try; the misses are the reason for the session-history dimension, the boundary values (zero, None, empty) and the symbolic-value harnesses.", "",
       "| seed | origin | change | caught by (first obligation that fails) | how |", "|---|---|---|---|---|"]
for r in rows:
    out.append("| " + " | ".join(r) + " |")
txt = "\n".join(out) + "\n"
p = "/verif/DESIGN.md"
s = open(p).read()
i = s.index("## 7. Seeded changes - who catches what")
s = s[:i] + "## 7. Seeded changes - who catches what\n\n" + txt
# ---- §8: behaviour-preserving refactorings (the other direction: no alarm where the property holds)
r8 = ["", "## 8. Behaviour-preserving refactorings - nobody may alarm", "",
      "The opposite experiment. `refactorings/RFn-*/patch.diff` rewrites code the properties are anchored in *without* changing what it",
      "does (loops for comprehensions, helper rules in the grammars, a recursive instead of an iterative flatten, a correct call-local",
      "memo, reordered grammar alternatives, character classes for alternations, ...). `tools/refactor_matrix.sh` applies each one to a",
      "scratch copy of /repo, runs the repository's tests (282 must pass; the two failures in every row are the baseline's environmental ones) and the quick checks of every property the rewritten code",
      "belongs to. A check that compared against incidental structure (state numbers of the LALR table, the order of terminals, the",
      "shape of an intermediate list, one particular order of multiplications) would alarm here. Result of the last run: no VIOLATION",
      "line and exit 0 in every cell; the one degradation is RF4 (recursive flatten), where CrossHair no longer closes the",
      "symbolic-multiplicity shards of A[flatten] within the budget - reported as *inconclusive*, not as a violation.", "",
      "| refactoring | what is rewritten | tests | checks run (exit, violations, verdict line) |", "|---|---|---|---|"]
for d in sorted(glob.glob("/verif/refactorings/RF*/"), key=lambda x: int(re.search(r"RF(\d+)", x).group(1))):
    meta = json.load(open(d + "meta.json"))
    res = open(d + "result.txt").read().strip().splitlines() if os.path.exists(d + "result.txt") else []
    tests = next((re.sub(r".*tests: exit=\d+ ", "", x) for x in res if " tests: " in x), "(not run)")
    cells = []
    for x in res:
        m = re.match(r"\S+ check=(\S+) exit=(\d+) violations=(\d+) \[C\d+\] quick: (\d+/\d+) obligations discharged, (\d+) inconclusive", x)
        if m:
            cells.append(f"{m.group(1)}: exit {m.group(2)}, {m.group(3)} violations, {m.group(4)} discharged" + (f", {m.group(5)} inconclusive" if m.group(5) != "0" else ""))
    r8.append(f"| {meta['name']} | {meta['summary']} | {tests} | " + "; ".join(cells) + " |")
s += "\n".join(r8) + "\n"
open(p, "w").write(s)
print(len(rows), "rows written")
