#!/bin/bash
# tools/refactor_matrix.sh [refactoring-dir ...] : the opposite of seed_matrix.sh.  Each refactorings/<name>/patch.diff changes the
# code WITHOUT changing behaviour; the repository's tests must pass with it and the quick checks named in meta.json must stay
# silent (exit 0, no VIOLATION line).  Runs against a scratch copy of /repo; writes refactorings/<name>/result.txt.
set -u
cd /verif
M=/tmp/rrepo
git -C /repo worktree remove --force $M 2>/dev/null
git -C /repo worktree add -q --detach $M HEAD || exit 2
cp /repo/src/decaylanguage/_version.py $M/src/decaylanguage/_version.py
trap 'git -C /repo worktree remove --force $M 2>/dev/null; rm -rf /tmp/revidence /tmp/rreplays' EXIT
export VERIF_REPO=$M PYTHONPATH=$M/src VERIF_EVIDENCE_DIR=/tmp/revidence VERIF_REPLAY_DIR=/tmp/rreplays
mkdir -p /tmp/revidence /tmp/rreplays
dirs=("$@"); [ ${#dirs[@]} -eq 0 ] && dirs=(refactorings/RF*/)
bad=0
for d in "${dirs[@]}"; do
  d=${d%/}; name=$(basename $d)
  git -C $M checkout -q -- . ; git -C $M apply /verif/$d/patch.diff || { echo "$name: patch does not apply"; bad=1; continue; }
  : > $d/result.txt
  (cd $M && /venv/bin/python -m pytest -q -p no:cacheprovider --timeout=900 tests > /tmp/rtests_$name.log 2>&1); trc=$?
  echo "$name tests: exit=$trc $(tail -1 /tmp/rtests_$name.log)" | tee -a $d/result.txt
  for p in $(python3 -c "import json;print(' '.join(json.load(open('$d/meta.json'))['checks']))"); do
    ./check $p quick > /tmp/rlog_${name}_$p.log 2>&1; rc=$?
    nv=$(grep -c '^VIOLATION' /tmp/rlog_${name}_$p.log)
    [ $rc -ne 0 -o $nv -ne 0 ] && bad=1
    echo "$name check=$p exit=$rc violations=$nv $(grep -E '^\[C[0-9]+\] quick' /tmp/rlog_${name}_$p.log | tail -1 | cut -c1-150)" | tee -a $d/result.txt
  done
  git -C $M checkout -q -- .
done
exit $bad
