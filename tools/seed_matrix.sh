#!/bin/bash
# tools/seed_matrix.sh [seed-dir ...] : run the quick check of the property each seeded change breaks against a scratch copy of
# /repo with the change applied (PYTHONPATH / VERIF_REPO point the checks at the copy; /repo itself is not touched; evidence of
# these runs goes to a scratch directory).  Writes seeded/<id>/detection.txt and prints one line per seed.
set -u
cd /verif
M=${MREPO:-/tmp/mrepo}
git -C /repo worktree remove --force $M 2>/dev/null
git -C /repo worktree add -q --detach $M HEAD || exit 2
cp /repo/src/decaylanguage/_version.py $M/src/decaylanguage/_version.py
trap 'git -C /repo worktree remove --force $M 2>/dev/null' EXIT
export VERIF_REPO=$M PYTHONPATH=$M/src VERIF_EVIDENCE_DIR=${M}_evidence VERIF_REPLAY_DIR=${M}_replays
mkdir -p ${M}_evidence ${M}_replays
seeds=("$@"); [ ${#seeds[@]} -eq 0 ] && seeds=(seeded/C*/)
for d in "${seeds[@]}"; do
  d=${d%/}; id=$(basename $d); prop=${id%%-*}
  extra=""
  [ -f $d/also_check ] && extra=$(cat $d/also_check)
  git -C $M checkout -q -- . ; git -C $M apply /verif/$d/patch.diff || { echo "$id: patch does not apply"; continue; }
  : > $d/detection.txt
  for p in $prop $extra; do
    ./check $p quick > /tmp/mlog_${id}_$p.log 2>&1; rc=$?
    nv=$(grep -c '^VIOLATION' /tmp/mlog_${id}_$p.log)
    what=$(grep -E "VIOLATED" /tmp/mlog_${id}_$p.log | head -1 | sed -E 's/^\[C[0-9]+\] VIOLATED +//' | cut -c1-160)
    echo "$id check=$p exit=$rc violations=$nv first: $what" | tee -a $d/detection.txt
  done
  git -C $M checkout -q -- .
done
