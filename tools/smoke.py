#!/usr/bin/env python3
"""tools/smoke.py harness.cNN body N [step]: run a harness body concretely over its selector range (debugging aid, not a check)."""
import sys, importlib, time, warnings
warnings.simplefilter("ignore")
sys.path.insert(0, "/verif")
mod = importlib.import_module(sys.argv[1]); body = getattr(mod, sys.argv[2]); n = int(sys.argv[3]); step = int(sys.argv[4]) if len(sys.argv) > 4 else 1
extra = [eval(a) for a in sys.argv[5:]]
t = time.time(); bad = 0
for sel in range(0, n, step):
    try:
        ok = body(sel, *extra)
    except Exception as e:
        ok = False; print("EXC", sel, type(e).__name__, str(e)[:300])
    if not ok:
        bad += 1
        import harness.decutil as du
        det = [getattr(m, "LAST_DETAIL", None) for nme, m in sys.modules.items() if nme.startswith("harness")]
        if bad <= 5: print("FAIL", sel, [d for d in det if d][:1])
print(f"{n//step} selectors, {bad} failures, {time.time()-t:.1f}s")
