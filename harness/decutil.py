"""Helpers shared by the .dec harnesses: rendering descriptions to text, running the real parser, snapshots."""
from __future__ import annotations

import contextlib
import io
import warnings

from decaylanguage.dec.dec import DecayNotFound, DecFileParser

LAST_DETAIL = None

# every character of the label alphabet occurs in this pool (checked at import); none starts with a numeric literal,
# none is a model name or a keyword (those classes are the known lexical findings F14a-c)
NAME_POOL = ["A", "B0", "anti-B0", "D_s*+", "K~0", "J/psi", "f'_0", "Xi(c).b", "pi+", "pi-", "Q1q", "R2r", "S3s", "T4t", "U5u",
             "V6v", "W7w", "X8x", "Y9y", "Zz", "CcEeGgHh", "IiJjLlMm", "NnOoPpkF", "a_b", "d"]
_ALPHA = "abcdefghijklmnopqrstuvwxyzABCDEFGHIJKLMNOPQRSTUVWXYZ0123456789/-+*_().'~"
assert set("".join(NAME_POOL)) == set(_ALPHA), sorted(set(_ALPHA) - set("".join(NAME_POOL)))

# every numeric literal form of C01 (1, 1., .5, -0.8, +3, 20.e12, 2E-4 ...)
NUM_POOL = ["1", "1.", ".5", "-0.8", "+3", "20.e12", "2E-4", "0.25", "1e3", "-.5e-2", "007", "3.25E+2"]


def fail(detail):
    global LAST_DETAIL
    LAST_DETAIL = detail
    return False


def parse(text, include_cc=True, extra_models=(), want_warnings=False, split_registration=False):
    p = DecFileParser.from_string(text)
    if extra_models and split_registration and len(extra_models) > 1:
        h = len(extra_models) // 2
        p.load_additional_decay_models(*extra_models[:h])        # names registered through two separate calls
        p.load_additional_decay_models(*extra_models[h:])
    elif extra_models:
        p.load_additional_decay_models(*extra_models)
    with warnings.catch_warnings(record=True) as w:
        warnings.simplefilter("always")
        p.parse(include_ccdecays=include_cc)
    if want_warnings:
        return p, [str(x.message) for x in w]
    return p


def details(p, mother, photos=True):
    return [dict(p._decay_mode_details(dm, photos)) for dm in p._find_decay_modes(mother)]


def tables(p, photos=True):
    return {m: details(p, m, photos) for m in p.list_decay_mother_names()}


def canon(x):
    """hashable, order-preserving canonical form of query results (floats kept as floats)"""
    if isinstance(x, dict):
        return ("d",) + tuple((canon(k), canon(v)) for k, v in x.items())
    if isinstance(x, (list, tuple)):
        return ("l",) + tuple(canon(v) for v in x)
    if isinstance(x, float):
        return ("f", repr(x))
    if isinstance(x, bool) or x is None:
        return ("c", repr(x))
    if isinstance(x, int):
        return ("i", int(x))
    return ("s", str(x), type(x).__name__)


QUERIES = ["dict_decays2copy", "dict_definitions", "dict_model_aliases", "dict_aliases", "dict_charge_conjugates",
           "get_particle_property_definitions", "dict_pythia_definitions", "dict_jetset_definitions", "dict_lineshape_settings",
           "list_lineshapePW_definitions", "global_photos_flag", "list_charge_conjugate_decays", "list_decay_mother_names"]


def snapshot(p, chains=True):
    """every public query of a parsed DecFileParser, canonicalised; exceptions are part of the snapshot"""
    out = []
    for q in QUERIES:
        try:
            out.append((q, canon(getattr(p, q)())))
        except Exception as e:
            out.append((q, ("exc", type(e).__name__)))
    out.append(("number_of_decays", p.number_of_decays))
    for m in p.list_decay_mother_names():
        out.append(("modes", m, canon(p.list_decay_modes(m))))
        out.append(("details", m, canon(details(p, m))))
        if chains:
            try:
                out.append(("chain", m, canon(p.build_decay_chains(m))))
                out.append(("expand", m, canon(p.expand_decay_modes(m))))
            except Exception as e:
                out.append(("chain", m, ("exc", type(e).__name__)))
        buf = io.StringIO()
        with contextlib.redirect_stdout(buf):
            try:
                p.print_decay_modes(m)
            except Exception as e:
                buf.write("exc " + type(e).__name__)
        out.append(("print", m, buf.getvalue()))
    return tuple(out)


def digits(sel: int, radices):
    """mixed-radix decode of a concrete selector"""
    out = []
    for r in radices:
        out.append(sel % r)
        sel //= r
    return out


def prod(radices):
    n = 1
    for r in radices:
        n *= r
    return n
