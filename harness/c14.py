"""C14 - descriptor format settings are scoped and validated (Engine A body: histories against a stack model)."""
from __future__ import annotations

from decaylanguage.decay.decay import DecayChain, DecayMode
from decaylanguage.utils.utilities import DescriptorFormat

from .decutil import fail

PATS = [("{mother} -> {daughters}", "({mother} -> {daughters})"),
        ("{mother} => {daughters}", "[{mother} => {daughters}]"),
        ("{mother} --> {daughters}", "{mother} (--> {daughters})"),
        ("{daughters} <- {mother}", "{{{daughters} <- {mother}}}")]
BAD = [("{mother} -> ", "({mother} -> {daughters})"),                        # first pattern lacks a placeholder
       ("{mother} -> {daughters}", "({mother} -> {daughters} {extra})"),     # second pattern has another placeholder
       ("{mother} => {daughters}", "[{mother} => {0}]"),                     # valid first, invalid second (positional field)
       ("{mother} {} {daughters}", "({mother} -> {daughters} {!r})")]         # anonymous extra fields
DEFAULT = {"decay_pattern": PATS[0][0], "sub_decay_pattern": PATS[0][1]}

# op codes
SET0, SET1, SET2, SET3 = 0, 1, 2, 3              # set_config with a valid pair
BAD0, BAD1, BAD2, BAD3 = 4, 5, 6, 7              # set_config with an invalid pair: rejected, format unchanged
FRESH1, FRESH2, FRESH3 = 8, 9, 10                # with DescriptorFormat(*PATS[k]):   (object created at the point of use)
REUSE_A, REUSE_B = 11, 12                        # with A: / with B:   (objects created once, before anything else; may nest in themselves)
FRESH_BAD = 13                                   # with DescriptorFormat(*BAD[2]):   entering raises, format unchanged
LEAVE, RAISE = 14, 15                            # leave the innermost block normally / by an exception
N_OPS = 16
OPNAMES = ["set0", "set1", "set2", "set3", "bad0", "bad1", "bad2", "bad3", "with fresh1", "with fresh2", "with fresh3", "with A", "with B",
           "with fresh-bad", "leave", "raise"]


class Boom(Exception):
    pass


def _render(cfg):
    sub = cfg["sub_decay_pattern"].format(mother="K_S0", daughters="pi+ pi-")
    return cfg["decay_pattern"].format(mother="D0", daughters=" ".join(sorted([sub, "pi0"])))


CHAIN = DecayChain("D0", {"D0": DecayMode(0.1, "K_S0 pi0"), "K_S0": DecayMode(0.7, "pi+ pi-")})


def run_history(ops):
    """interpret the history against the real class and the stack model; returns None or a description of the disagreement"""
    DescriptorFormat.config = dict(DEFAULT)
    A = DescriptorFormat(*PATS[1])          # created under the default format
    DescriptorFormat.set_config(*PATS[2])   # ... which is no longer in force when A is entered
    B = DescriptorFormat(*PATS[3])
    DescriptorFormat.set_config(*PATS[0])
    trace = []

    def check(model, where):
        if DescriptorFormat.config != model:
            return f"after {trace} ({where}): format in force {DescriptorFormat.config}, stack model says {model}"
        got = CHAIN.to_string()
        if got != _render(model):
            return f"after {trace} ({where}): rendering {got!r}, expected {_render(model)!r}"
        return None

    def go(i, model, depth):
        """run ops[i:] inside the current block; returns (next index, model at block end, error, how the block ended)"""
        while i < len(ops):
            op = ops[i]
            i += 1
            trace.append(OPNAMES[op])
            if op <= SET3:
                try:
                    DescriptorFormat.set_config(*PATS[op])
                except ValueError as e:
                    return i, model, f"valid patterns {PATS[op]} rejected: {e}", "error"
                model = {"decay_pattern": PATS[op][0], "sub_decay_pattern": PATS[op][1]}
            elif op <= BAD3:
                try:
                    DescriptorFormat.set_config(*BAD[op - BAD0])
                    return i, model, f"invalid patterns {BAD[op - BAD0]} accepted", "error"
                except ValueError:
                    pass
            elif op in (LEAVE, RAISE):
                if depth == 0:
                    continue                      # nothing to leave at top level
                return i, model, None, ("raise" if op == RAISE else "leave")
            else:
                if op == FRESH_BAD:
                    try:
                        with DescriptorFormat(*BAD[2]):
                            return i, model, "entering a context with an invalid pattern did not raise", "error"
                    except ValueError:
                        pass
                else:
                    ctx = A if op == REUSE_A else B if op == REUSE_B else DescriptorFormat(*PATS[op - FRESH1 + 1])
                    pat = PATS[1] if op == REUSE_A else PATS[3] if op == REUSE_B else PATS[op - FRESH1 + 1]
                    inner = {"decay_pattern": pat[0], "sub_decay_pattern": pat[1]}
                    saved = dict(model)
                    err = None
                    try:
                        with ctx:
                            err = check(inner, "inside the block")
                            if err is None:
                                i, _, err, how = go(i, inner, depth + 1)
                                if err is None and how == "raise":
                                    raise Boom()
                    except Boom:
                        pass
                    if err is not None:
                        return i, model, err, "error"
                    model = saved                 # leaving restores the format in force at entry
            err = check(model, "after " + OPNAMES[op])
            if err is not None:
                return i, model, err, "error"
        return i, model, None, "end"

    try:
        _, _, err, _ = go(0, dict(DEFAULT), 0)
    finally:
        DescriptorFormat.config = dict(DEFAULT)
    return err


def decode(sel, length):
    ops = []
    for _ in range(length):
        ops.append(sel % N_OPS)
        sel //= N_OPS
    return ops


def _all(sel, prefix_len, suffix_len):
    """selector = the first ops of the history; every continuation of suffix_len further ops is run inside the path"""
    prefix = decode(sel, prefix_len)
    for suf in range(N_OPS ** suffix_len):
        err = run_history(prefix + decode(suf, suffix_len))
        if err is not None:
            return fail(err)
    return True


def body_hist4(sel: int) -> bool:
    return _all(sel, 2, 2)


def body_hist5(sel: int) -> bool:
    return _all(sel, 3, 2)


def body_hist6(sel: int) -> bool:
    return _all(sel, 3, 3)


N_PREFIX2, N_PREFIX3 = N_OPS ** 2, N_OPS ** 3
