"""C03 - CDecay yields the exact charge conjugate of the referenced decay table (Engine A bodies)."""
from __future__ import annotations

from decaylanguage.decay.decay import DecayMode

from .decutil import details, digits, fail, parse, prod

# hand-written conjugates of the pool (independent of the code under test)
PDG_CC = {"K+": "K-", "K-": "K+", "pi0": "pi0", "D0": "anti-D0", "anti-D0": "D0", "B_s0": "anti-B_s0", "anti-B_s0": "B_s0",
          "K_S0": "K_S0", "gamma": "gamma", "Lambda_c+": "anti-Lambda_c-", "anti-Lambda_c-": "Lambda_c+", "nu_tau": "anti-nu_tau",
          "anti-nu_tau": "nu_tau", "D*+": "D*-", "D*-": "D*+", "e-": "e+", "e+": "e-", "B+": "B-", "B-": "B+", "rho0": "rho0",
          "D+": "D-", "D-": "D+", "pi+": "pi-", "pi-": "pi+", "B0": "anti-B0", "anti-B0": "B0", "phi": "phi"}


def pdg_cc(n):
    return PDG_CC.get(n, f"ChargeConj({n})")


def oracle_cc(name, ccdict):
    """the rule of the statement: ChargeConj statement read in either direction, otherwise the PDG id behind the name"""
    if name in ccdict:
        return ccdict[name]
    for p, c in ccdict.items():
        if c == name:
            return p
    return pdg_cc(name)


# (X, source name, ChargeConj statements needed (as written), aliases)
PAIRS = [
    ("anti-D0", "D0", [], []),                                                        # plain PDG pair
    ("MyAntiD0", "MyD0", ["ChargeConj MyD0 MyAntiD0"], ["Alias MyD0 D0", "Alias MyAntiD0 anti-D0"]),
    ("MyAntiD0", "MyD0", ["ChargeConj MyAntiD0 MyD0"], ["Alias MyD0 D0", "Alias MyAntiD0 anti-D0"]),   # other orientation
    ("B-", "B+", [], []),
    ("Zeta-", "Xyz+", ["ChargeConj Zeta- Xyz+"], []),                               # names with different initials, unknown to PDG
    ("MyLam-", "MyLam+", ["ChargeConj MyLam+ MyLam-"], ["Alias MyLam+ Lambda_c+", "Alias MyLam- anti-Lambda_c-"]),
]
# daughter lines of the source table: (bf, daughters, photos, model, params)
LINESETS = [
    [("1.0", ["K-", "pi+"], False, "PHSP", "")],
    [("0.6", ["K-", "pi+", "pi0"], True, "D_DALITZ", ""), ("0.4", ["K_S0", "MyK+", "MyK-"], False, "PHSP", "")],
    [("0.5", ["MyK+", "MyK+", "anti-nu_tau"], True, "SSD_CP", "20.e12 0.1 1.0 word -0.8"), ("0.3", ["Foo", "MyPhi", "gamma"], False, "VSS", ""),
     ("0.2", [], False, "PHSP", "")],
    [("1.0", ["MyKb+", "MyKa-", "D*+", "anti-B_s0"], False, "HELAMP", "1.0 0.0 1.0 0.0")],
]
DAUGHTER_DECLS = ["Alias MyK+ K+", "Alias MyK- K-", "ChargeConj MyK+ MyK-", "Alias MyKa- K-", "Alias MyKb+ K+", "ChargeConj MyKa- MyKb+",
                  "Alias MyPhi phi"]
R_CDECAY = [len(PAIRS), len(LINESETS), 4, 5, 3, 2, 2, 2]
N_CDECAY = prod(R_CDECAY)
UNRELATED = ["Decay rho0\n1.0 pi+ pi- VSS;\nEnddecay", "Decay K_S0\n0.7 pi+ pi- PHSP;\n0.3 pi0 pi0 PHSP;\nEnddecay",
             "Decay phi\n1.0 K+ K- VSS;\nEnddecay", "Decay D*+\n1.0 D0 pi+ VSS;\nEnddecay"]


OTHER_FILE = """Alias MyK+ K+
Alias MyK- K-
Alias MyKa- K-
Alias MyKb+ K+
ChargeConj MyKa- MyK+
ChargeConj MyK- MyKb+
ChargeConj MyPhiBar MyPhi
ChargeConj FooBar Foo
ChargeConj MyZ MyD0
ChargeConj MyLam- MyOtherLam+
ChargeConj Xyz+ Other-
Decay MyD0
1.0 MyK+ MyK- MyKa- MyKb+ MyPhi Foo PHSP;
Enddecay
CDecay MyZ
Decay Other-
1.0 MyPhi Foo gamma PHSP;
Enddecay
CDecay Xyz+
"""


def _block(mother, lines):
    out = [f"Decay {mother}"]
    for bf, ds, ph, mo, pa in lines:
        out.append(" ".join([bf] + ds + (["PHOTOS"] if ph else []) + [mo] + ([pa] if pa else [])) + ";")
    return "\n".join(out + ["Enddecay"])


def body_cdecay(sel: int) -> bool:
    pi, li, order, nun, srcmode, own, incl, history = digits(sel, R_CDECAY)
    X, src, ccst, aliases = PAIRS[pi]
    lines = LINESETS[li]
    # source table: 0 = Decay block; 1 = CopyDecay from a block of another name; 2 = no source at all
    if srcmode == 0:
        src_stm = [_block(src, lines)]
    elif srcmode == 1:
        src_stm = [_block("Original0", lines), f"CopyDecay {src} Original0"]
    else:
        src_stm = []
    cd = [f"CDecay {X}"]
    own_stm = [_block(X, [("1.0", ["gamma", "gamma"], False, "PHSP", "")])] if own else []
    decl = aliases + DAUGHTER_DECLS
    unrel = UNRELATED[:nun]
    # statement order: 0 decl, source, CDecay | 1 CDecay first, then source, decl last | 2 source, own, CDecay, ChargeConj last | 3 interleaved
    if order == 0:
        parts = decl + ccst + unrel + src_stm + own_stm + cd
    elif order == 1:
        parts = cd + own_stm + src_stm + unrel + ccst + decl
    elif order == 2:
        parts = src_stm + unrel[:2] + own_stm + cd + decl + unrel[2:] + ccst
    else:
        parts = decl[:3] + cd + unrel[:1] + ccst + src_stm + decl[3:] + own_stm + unrel[1:]
    text = "\n".join(parts) + "\n"
    if history:
        # an earlier, unrelated parse in the same session that pairs the same names differently must not leak into this one
        parse(OTHER_FILE)
    try:
        p = parse(text, include_cc=bool(incl))
    except Exception as e:
        return fail(f"{type(e).__name__}: {str(e)[:200]} for {text!r}")
    ccdict = {}
    for st in [s for s in parts if s.startswith("ChargeConj ")]:      # file order, later statement wins per key
        _, a, b = st.split()
        ccdict[a] = b
    names = p.list_decay_mother_names()
    has_src = srcmode != 2
    # the source table is untouched
    if has_src:
        exp_src = [{"bf": float(bf), "fs": list(ds), "model": ("PHOTOS " if ph else "") + mo,
                    "model_params": [float(x) if x[0] in "0123456789-+." else x for x in pa.split()] if pa else ""} for bf, ds, ph, mo, pa in lines]
        if src not in names or details(p, src) != exp_src:
            return fail(f"source table {src!r} changed: {details(p, src) if src in names else None} vs {exp_src}; text {text!r}")
    if own:
        exp_x = [{"bf": 1.0, "fs": ["gamma", "gamma"], "model": "PHSP", "model_params": ""}]
        if names.count(X) != 1 or details(p, X) != exp_x:
            return fail(f"Decay {X} must take precedence over CDecay {X}: {details(p, X) if X in names else None}; text {text!r}")
        return True
    if not incl or not has_src:
        if X in names:
            return fail(f"{X!r} got a table although " + ("conjugates are switched off" if not incl else "there is no source table") + f"; text {text!r}")
        extra = [n for n in names if n not in {src, "Original0", "rho0", "K_S0", "phi", "D*+"}]
        if extra:
            return fail(f"unexpected tables {extra}; text {text!r}")
        return True
    if names.count(X) != 1:
        return fail(f"CDecay {X}: expected exactly one table, mothers are {names}; text {text!r}")
    exp = [{"bf": float(bf), "fs": [oracle_cc(d, ccdict) for d in ds], "model": ("PHOTOS " if ph else "") + mo,
            "model_params": [float(x) if x[0] in "0123456789-+." else x for x in pa.split()] if pa else ""} for bf, ds, ph, mo, pa in lines]
    got = details(p, X)
    if got != exp:
        return fail(f"CDecay {X}: {got} expected {exp}; ChargeConj {ccdict}; text {text!r}")
    # agreement with the class layer (C04) where no file-level ChargeConj information is involved
    for (bf, ds, ph, mo, pa), g in zip(lines, got):
        if all(d in PDG_CC for d in ds):
            cm = DecayMode(float(bf), ds, model=mo).charge_conjugate()
            if sorted(g["fs"]) != cm.daughters.to_list() or cm.bf != g["bf"]:
                return fail(f"CDecay line {g} disagrees with DecayMode.charge_conjugate {cm.daughters.to_list()}")
    return True


# ---- several CDecay statements in one file, each with its own fate ------------------------------------------------------------------
# (X, source, declarations, source lines); the names sort in an order unrelated to the order of the statements
MULTI = [
    ("B-", "B+", [], [("1.0", ["anti-D0", "pi+"], False, "PHSP", "")]),
    ("D*-", "D*+", [], [("0.7", ["D0", "pi+"], True, "VSS", ""), ("0.3", ["D+", "gamma"], False, "VSP_PWAVE", "")]),
    ("D-", "D+", [], [("0.5", ["K-", "pi+", "pi+"], False, "D_DALITZ", ""), ("0.5", ["K_S0", "e+", "nu_tau"], True, "ISGW2", "")]),
    ("Myanti-D0", "MyD0", ["Alias MyD0 D0", "Alias Myanti-D0 anti-D0", "ChargeConj MyD0 Myanti-D0"], [("1.0", ["K-", "K+", "rho0"], False, "PHSP", "")]),
    ("anti-B_s0", "B_s0", [], [("0.25", ["D*-", "e+"], False, "HQET2", "1.1 0.9"), ("0.75", ["phi", "phi"], False, "SVV_HELAMP", "1.0 0.0 1.0 0.0 1.0 0.0")]),
]
# fate of X: 0 not mentioned | 1 CDecay X, source present | 2 CDecay X, no source | 3 CDecay X + Decay X + source | 4 CDecay X + Decay X, no source
N_FATES = 5
R_MULTI = [N_FATES] * len(MULTI) + [3]
N_MULTI = prod(R_MULTI)


def _lines(lines, conj=False):
    return [{"bf": float(bf), "fs": [pdg_or_decl_cc(d) if conj else d for d in ds], "model": ("PHOTOS " if ph else "") + mo,
             "model_params": [float(x) for x in pa.split()] if pa else ""} for bf, ds, ph, mo, pa in lines]


def pdg_or_decl_cc(n):
    return {"MyD0": "Myanti-D0", "Myanti-D0": "MyD0"}.get(n) or PDG_CC[n]


def body_cdecay_multi(sel: int) -> bool:
    """each CDecay statement is decided on its own: conjugate of ITS source, nothing without a source, Decay X wins - whatever the
    other CDecay statements of the file do and however the names sort"""
    ds = digits(sel, R_MULTI)
    fates, order = ds[:-1], ds[-1]
    own_lines = [("1.0", ["gamma", "gamma"], False, "PHSP", "")]
    decl, blocks, cds, exp = [], [], [], {}
    for k, ((X, src, dcl, lines), fate) in enumerate(zip(MULTI, fates)):
        if fate == 0:
            continue
        decl += dcl
        cds.append(f"CDecay {X}")
        if fate in (1, 3):
            blocks.append(_block(src, lines))
            exp[src] = _lines(lines)
        if fate in (3, 4):
            blocks.append(_block(X, own_lines))
            exp[X] = _lines(own_lines)
        elif fate == 1:
            exp[X] = _lines(lines, conj=True)
    if order == 0:
        parts = decl + blocks + cds
    elif order == 1:
        parts = decl + list(reversed(cds)) + list(reversed(blocks))
    else:
        parts = decl + [x for pair in zip(blocks, cds) for x in pair] + blocks[len(cds):] + cds[len(blocks):]
    text = "\n".join(parts) + "\n"
    try:
        p = parse(text)
    except Exception as e:
        return fail(f"{type(e).__name__}: {str(e)[:200]} for {text!r}")
    names = p.list_decay_mother_names()
    if sorted(names) != sorted(exp) or p.number_of_decays != len(exp):
        return fail(f"mothers {sorted(names)} ({p.number_of_decays} tables), expected {sorted(exp)}; text {text!r}")
    for m, want in exp.items():
        got = details(p, m)
        if got != want:
            return fail(f"table of {m!r}: {got}, expected {want}; text {text!r}")
    return True


# ---- thorough: one daughter slot ranges over the whole EvtGen name table ------------------------------------------------------
def _evtgen_names():
    from particle.converters import EvtGenName2PDGIDBiMap
    name2id = {str(k): int(v) for k, v in EvtGenName2PDGIDBiMap._to_map.items()}
    id2name = {int(k): str(v) for k, v in EvtGenName2PDGIDBiMap._from_map.items()}
    return sorted(name2id), name2id, id2name


EVT_NAMES, _N2I, _I2N = _evtgen_names()
N_NAMES = len(EVT_NAMES)


def body_cdecay_names(sel: int) -> bool:
    """CDecay anti-D0 of 'D0 -> <name> K-': the conjugated daughter has the negated PDG id (or is the same / is marked unknown)"""
    n = EVT_NAMES[sel]
    import re
    from harness.c06 import MODELS
    if re.match(r"[+-]?(\d|\.\d)", n) or n in MODELS or n == "PHOTOS":
        return True          # lexical classes F14a/c
    text = f"Decay D0\n1.0 {n} K- PHSP;\nEnddecay\nCDecay anti-D0\n"
    p = parse(text)
    got = details(p, "anti-D0")[0]["fs"]
    i = _N2I[n]
    from harness.c04 import oracle_evtgen
    exp = [oracle_evtgen(n), "K+"]
    if got != exp:
        return fail(f"CDecay: daughter {n!r} (id {i}) conjugated to {got[0]!r}, expected {exp[0]!r}")
    return True


def body_cdecay_mother(sel: int) -> bool:
    """CDecay <name> for every EvtGen name that has a distinct antiparticle: the table of the conjugate is found and conjugated"""
    n = EVT_NAMES[sel]
    import re
    from harness.c06 import MODELS
    from harness.c04 import oracle_evtgen
    if re.match(r"[+-]?(\d|\.\d)", n) or n in MODELS or n == "PHOTOS":
        return True
    c = oracle_evtgen(n)
    text = f"Decay {c}\n0.75 K+ pi- PHSP;\n0.25 gamma K_S0 PHOTOS VSS;\nEnddecay\nCDecay {n}\n" if not c.startswith("ChargeConj(") else \
        f"Decay {n}bar\n1.0 K+ pi- PHSP;\nEnddecay\nCDecay {n}\n"
    p = parse(text)
    names = p.list_decay_mother_names()
    if c.startswith("ChargeConj(") or c == n:
        # no known antiparticle / self-conjugate: nothing may be created under a guessed name
        if names.count(n) > (1 if c == n else 0):
            return fail(f"CDecay {n!r} (conjugate {c!r}) created a table: {names}")
        return True
    if names != [c, n]:
        return fail(f"CDecay {n!r}: mothers {names}, expected {[c, n]}")
    exp = [{"bf": 0.75, "fs": ["K-", "pi+"], "model": "PHSP", "model_params": ""}, {"bf": 0.25, "fs": ["gamma", "K_S0"], "model": "PHOTOS VSS", "model_params": ""}]
    if details(p, n) != exp:
        return fail(f"CDecay {n!r}: {details(p, n)}")
    return True


# ---- the numbers of a conjugated / copied table for every value (hand-built tree behind a Lark stub) -------------------------------------
N_VALUES = 3


def body_cdecay_values(sel: int, x: float, y: float, z: float) -> bool:
    import warnings
    from lark import Tree
    import decaylanguage.dec.dec as decmod
    from decaylanguage.dec.dec import DecFileParser
    from .c01 import Tok, _StubLark
    T = lambda name, *ch: Tree(name, list(ch))

    def line(bf, ds, model, params=None, photos=False):
        ch = [T("value", Tok(bf))] + [T("particle", Tok(d)) for d in ds] + ([T("photos")] if photos else [])
        m = [Tok(model)] + ([T("model_options", *[T("value", Tok(p)) if not isinstance(p, str) else Tok(p) for p in params])] if params else [])
        return T("decayline", *ch, T("model", *m))
    src = T("decay", T("particle", Tok("MyD0")), line(x, ["K-", "pi+", "MyK+"], "SSD_CP", [y, "word", z], True), line(y, ["K_S0", "pi0"], "PHSP"),
            line(z, [], "VSS", [x]))
    decl = [T("alias", Tok("MyD0"), Tok("D0")), T("alias", Tok("MyAntiD0"), Tok("anti-D0")), T("alias", Tok("MyK+"), Tok("K+")), T("alias", Tok("MyK-"), Tok("K-")),
            T("chargeconj", Tok("MyK-"), Tok("MyK+")), T("chargeconj", Tok("MyD0"), Tok("MyAntiD0")) if sel != 1 else T("chargeconj", Tok("MyAntiD0"), Tok("MyD0"))]
    extra = [T("cdecay", Tok("MyAntiD0"))]
    if sel == 2:
        extra = [T("copydecay", T("label", Tok("MyCopy")), T("label", Tok("MyD0"))), T("chargeconj", Tok("MyCopy"), Tok("MyAntiCopy")),
                 T("cdecay", Tok("MyAntiCopy")), T("cdecay", Tok("MyAntiD0"))]
    _StubLark.tree = T("start", *(extra[:1] + decl + [src] + extra[1:]))
    old = decmod.Lark
    decmod.Lark = _StubLark
    try:
        p = DecFileParser.from_string("given as a tree")
        with warnings.catch_warnings():
            warnings.simplefilter("ignore")
            p.parse()
    finally:
        decmod.Lark = old
    lines_src = [{"bf": x, "fs": ["K-", "pi+", "MyK+"], "model": "PHOTOS SSD_CP", "model_params": [y, "word", z]},
                 {"bf": y, "fs": ["K_S0", "pi0"], "model": "PHSP", "model_params": ""}, {"bf": z, "fs": [], "model": "VSS", "model_params": [x]}]
    lines_cc = [dict(lines_src[0], fs=["K+", "pi-", "MyK-"]), dict(lines_src[1], fs=["K_S0", "pi0"]), dict(lines_src[2])]
    exp = {"MyD0": lines_src, "MyAntiD0": lines_cc}
    if sel == 2:
        exp.update({"MyCopy": lines_src, "MyAntiCopy": lines_cc})
    got = {m: details(p, m) for m in p.list_decay_mother_names()}
    if got != exp:
        return fail(f"tables for x={x!r}, y={y!r}, z={z!r}: {got!r}, expected {exp!r}")
    return True
