"""C18 - each amplitude is emitted with exactly its Bose-symmetrised permutations (Engine A bodies).

body_perm: ModelDecay.list_structure on every binary decay-tree shape with 2..4 leaves; the *types* of the leaves and of the
event-type positions are symbolic integers, and so is a candidate assignment: soundness (every returned tuple is a typed
injection, none twice) and completeness (every typed injection is returned) are decided by z3 for all type assignments."""
from __future__ import annotations

from decaylanguage.modeling.decay import ModelDecay

LAST_DETAIL = None


def fail(d):
    global LAST_DETAIL
    LAST_DETAIL = d
    return False


# binary decay-tree shapes as nested tuples of leaf indices
SHAPES = [
    (2, (0, 1)),
    (3, ((0, 1), 2)), (3, (0, (1, 2))),
    (4, ((0, 1), (2, 3))), (4, (((0, 1), 2), 3)), (4, ((0, (1, 2)), 3)), (4, (0, ((1, 2), 3))), (4, (0, (1, (2, 3)))),
]
# (shape index, number of event-type positions)
PERM_CASES = [(0, 2), (0, 3), (0, 4), (1, 3), (1, 4), (2, 3), (2, 4), (3, 4), (4, 4), (5, 4), (6, 4), (7, 4)]
NTYPES = 3


def _build(shape, types):
    if isinstance(shape, int):
        return ModelDecay(particle=types[shape], name="leaf")
    return ModelDecay(particle=1000, daughters=[_build(s, types) for s in shape], name="node")


def body_perm(sel: int, t0: int, t1: int, t2: int, t3: int, e0: int, e1: int, e2: int, e3: int) -> bool:
    """selector = (tree shape, number of event-type positions, type of the first position); everything else is symbolic"""
    case, first = sel // NTYPES, sel % NTYPES
    si, m = PERM_CASES[case]
    n, shape = SHAPES[si]
    types = [t0, t1, t2, t3][:n]
    event = ([first] + [e1, e2, e3])[:m]          # w.l.o.g. split on the type of position 0 (one shard per value)
    line = _build(shape, types)
    covered = all(any(t == e for e in event) for t in types)
    try:
        got = line.list_structure(event)
    except RuntimeError:
        return (not covered) or fail(f"list_structure refused although every leaf type {types} occurs in the event type {event}")
    if not covered:
        return fail(f"leaf types {types} are not all in the event type {event} but list_structure returned {got}")
    seen = set()
    for a in got:
        if len(a) != n:
            return fail(f"tuple {a} has the wrong length")
        if len(set(a)) != n:
            return fail(f"tuple {a} is not one-to-one")
        for j in range(n):
            if not (0 <= a[j] < m) or event[a[j]] != types[j]:
                return fail(f"tuple {a} assigns leaf {j} (type {types[j]}) to position {a[j]} of {event}")
        if a in seen:
            return fail(f"tuple {a} returned twice")
        seen.add(a)
    # completeness: every one-to-one assignment of the n leaves to the m positions that respects the types is returned
    from itertools import permutations
    for cand in permutations(range(m), n):
        if all(event[cand[j]] == types[j] for j in range(n)) and cand not in seen:
            return fail(f"typed injection {cand} of leaves {types} into {event} is missing from {got}")
    return True


N_PERM = len(PERM_CASES) * NTYPES
