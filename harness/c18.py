"""C18 - each amplitude is emitted with exactly its Bose-symmetrised permutations (Engine A bodies).

body_perm: ModelDecay.list_structure on every binary decay-tree shape with 2..4 leaves; the *types* of the leaves and of the
event-type positions are symbolic integers, and so is a candidate assignment: soundness (every returned tuple is a typed
injection, none twice) and completeness (every typed injection is returned) are decided by z3 for all type assignments."""
from __future__ import annotations

from decaylanguage.modeling.decay import ModelDecay

LAST_DETAIL = None


def fail(d):
    global LAST_DETAIL
    LAST_DETAIL = d
    return False


# binary decay-tree shapes as nested tuples of leaf indices
SHAPES = [
    (2, (0, 1)),
    (3, ((0, 1), 2)), (3, (0, (1, 2))),
    (4, ((0, 1), (2, 3))), (4, (((0, 1), 2), 3)), (4, ((0, (1, 2)), 3)), (4, (0, ((1, 2), 3))), (4, (0, (1, (2, 3)))),
]
# (shape index, number of event-type positions)
import os

THOROUGH = os.environ.get("VERIF_TIER") == "thorough"
PERM_CASES = ([(0, 2), (0, 3), (0, 4), (1, 3), (1, 4), (2, 3), (2, 4), (3, 4), (4, 4), (5, 4), (6, 4), (7, 4)] if THOROUGH else
              [(0, 2), (0, 4), (1, 3), (2, 4), (3, 4), (4, 4), (7, 4)])          # quick: every leaf count, both topologies with 4 leaves + the comb
NTYPES = 3


def _build(shape, types):
    if isinstance(shape, int):
        return ModelDecay(particle=types[shape], name="leaf")
    return ModelDecay(particle=1000, daughters=[_build(s, types) for s in shape], name="node")


def body_perm(sel: int, t0: int, t1: int, t2: int, t3: int, e0: int, e1: int, e2: int, e3: int) -> bool:
    """selector = (tree shape, number of event-type positions, type of the first position); everything else is symbolic"""
    case, first = sel // NTYPES, sel % NTYPES
    si, m = PERM_CASES[case]
    n, shape = SHAPES[si]
    types = [t0, t1, t2, t3][:n]
    event = ([first] + [e1, e2, e3])[:m]          # w.l.o.g. split on the type of position 0 (one shard per value)
    line = _build(shape, types)
    covered = all(any(t == e for e in event) for t in types)
    try:
        got = line.list_structure(event)
    except RuntimeError:
        return (not covered) or fail(f"list_structure refused although every leaf type {types} occurs in the event type {event}")
    if not covered:
        return fail(f"leaf types {types} are not all in the event type {event} but list_structure returned {got}")
    seen = set()
    for a in got:
        if len(a) != n:
            return fail(f"tuple {a} has the wrong length")
        if len(set(a)) != n:
            return fail(f"tuple {a} is not one-to-one")
        for j in range(n):
            if not (0 <= a[j] < m) or event[a[j]] != types[j]:
                return fail(f"tuple {a} assigns leaf {j} (type {types[j]}) to position {a[j]} of {event}")
        if a in seen:
            return fail(f"tuple {a} returned twice")
        seen.add(a)
    # completeness: every one-to-one assignment of the n leaves to the m positions that respects the types is returned
    from itertools import permutations
    for cand in permutations(range(m), n):
        if all(event[cand[j]] == types[j] for j in range(n)) and cand not in seen:
            return fail(f"typed injection {cand} of leaves {types} into {event} is missing from {got}")
    return True


N_PERM = len(PERM_CASES) * NTYPES


# ---- generated code: per permutation the spin factor(s) and one lineshape per resonance ------------------------------------------------
def _emit_imports():
    from . import gen
    return gen


N_ENTRIES = 16
N_EMIT = N_ENTRIES * 4 * 2 * 2 * 2   # family entry x event-type ordering x language x (inline | resonance given as a separate sub-line) x history


def body_emit(sel: int) -> bool:
    gen = _emit_imports()
    ei, rest = sel % N_ENTRIES, sel // N_ENTRIES
    ev, rest = rest % 4, rest // 4
    lang, rest = rest % 2, rest // 2
    partial, history = rest % 2, rest // 2
    entry = (gen.FAMILY + gen.EXTRA)[ei]
    event = gen.EXTRA_EVENTS[entry[0]][ev] if entry[0] in gen.EXTRA_EVENTS else gen.EVENT_TYPES[ev]
    cls = gen.GooFitChain if lang == 0 else gen.GooFitPyChain
    key, line, topo, struct, L_top, res, leaves = entry
    text_line = line
    sub = ""
    if partial:
        # write the first resonance as an undecayed name and give its decay on a separate line
        rn = res[0][0]
        start = line.index(rn)
        depth, end = 0, None
        for i in range(start, len(line)):
            if line[i] == "{":
                depth += 1
            elif line[i] == "}":
                depth -= 1
                if depth == 0:
                    end = i + 1
                    break
        if end is None or depth != 0 or "{" not in line[start:end]:
            return True
        sub = line[start:end] + " 2 1 0 2 0 0\n"
        text_line = line[:start] + rn + line[end:]
    if partial and len({r[0] for r in res}) < len(res):
        return True                          # two resonances of one name: a sub-line would be taken for both (that is C17's expansion)
    text = "EventType D0 " + " ".join(event) + "\n" + text_line + " 0 0.5 0.1 0 1.5 0.2\n" + sub + gen.PARAMS
    import contextlib, io
    gen.reset_state()
    if history:
        # an unrelated file read earlier in the same process gives the same resonance names other decays / tags
        other = ("EventType D0 K- pi+ pi+ pi-\nD0{a(1)(1260)+,K-} 0 1 0 0 0 0\na(1)(1260)+[D]{PiPi20[kMatrix.pole.0]{pi+,pi-},pi+} 2 1 0 2 0 0\n"
                 "D0{K(1460)bar-,pi+} 0 1 0 0 0 0\nK(1460)bar-{K*(892)bar0[GSpline.EFF]{K-,pi+},pi-} 2 1 0 2 0 0\n"
                 "D0{K*(892)bar0,rho(770)0{pi+,pi-}} 0 1 0 0 0 0\nK*(892)bar0[P]{K-,pi+} 2 1 0 2 0 0\nD0{KPi00,PiPi00[kMatrix.prod.0]{pi+,pi-}} 0 1 0 0 0 0\n"
                 "KPi00{K-,pi+} 2 1 0 2 0 0\nD0{K(2)*(1430)bar-,pi+} 0 1 0 0 0 0\nK(2)*(1430)bar-[D]{K*(892)bar0{K-,pi+},pi-} 2 1 0 2 0 0\n"
                 "K*(892)bar0::Spline::Min 0.1\nK*(892)bar0::Spline::Max 2\nK*(892)bar0::Spline::N 2\n" + gen.PARAMS)
        try:
            with contextlib.redirect_stderr(io.StringIO()), contextlib.redirect_stdout(io.StringIO()):
                (gen.GooFitPyChain if lang == 0 else gen.GooFitChain).read_ampgen(text=other)
        except Exception:
            pass
        # the class-level particle sets are NOT reset here: the code of an amplitude does not depend on what was read before
    try:
        with contextlib.redirect_stderr(io.StringIO()), contextlib.redirect_stdout(io.StringIO()):
            lines, states = cls.read_ampgen(text=text)
            if len(lines) != 1:
                return fail(f"{key}: {len(lines)} amplitudes read from one line: {[str(x) for x in lines]}")
            code = lines[0].to_goofit(states[1:])
            got_perms = lines[0].list_structure(states[1:])
    except Exception as e:
        return fail(f"{key} ({'C++' if lang == 0 else 'Python'}, event type {event}): {type(e).__name__}: {str(e)[:200]}")
    exp_perms = gen.perms_oracle(leaves, event)
    if sorted(got_perms) != exp_perms or len(got_perms) != len(set(got_perms)):
        return fail(f"{key}: list_structure {got_perms}, the typed one-to-one assignments are {exp_perms} (event type {event})")
    err = gen.check_amplitude_code(code, entry, event, "C++" if lang == 0 else "Python")
    return err is None or fail(err + f"; partial={bool(partial)}, history={bool(history)}")


N_ORDER = 12 * 2


def body_order(sel: int) -> bool:
    """a file with several amplitudes: each appears once, in input order, in both outputs"""
    gen = _emit_imports()
    start, lang = sel % 12, sel // 12
    entries = [gen.FAMILY[(start + 5 * j) % 12] for j in range(4)]
    text = gen.text_of(entries, gen.EVENT_TYPES[0], gen.PARAMS, coupling_offset=start)
    fn = gen.write_tmp(f"order_{sel}.txt", text)
    gen.reset_state()
    try:
        out, _ = gen.convert(fn, "cpp" if lang == 0 else "py", True)
    except Exception as e:
        return fail(f"conversion of {[e[0] for e in entries]} raised {type(e).__name__}: {str(e)[:200]}")
    names = gen.AMP_NAME_RE.findall(out)
    exp = []
    for e in entries:
        s = e[1]
        for a, b in {"K*(892)bar0": "K*(892)~0", "K(1460)bar-": "K(1460)-", "K(2)*(1430)bar-": "K(2)*(1430)-", "PiPi00": "PiPi0", "PiPi20": "PiPi2",
                     "PiPi30": "PiPi3"}.items():
            s = s.replace(a, b)
        exp.append(s)
    if names != exp:
        return fail(f"amplitudes in the output {names}, in the file {exp}")
    blocks = out.split("Line 0", 1)[-1]
    n_sf_blocks = len(re.findall(r"spin_factor_list\.(?:push_back|append)", blocks))
    if n_sf_blocks != len(entries):
        return fail(f"{n_sf_blocks} spin-factor blocks for {len(entries)} amplitudes")
    return True


import re  # noqa: E402
