"""C04 - charge conjugation is a PDG-consistent involution at every layer (Engine A harness bodies)."""
from __future__ import annotations

from collections import Counter

from particle import Particle
from particle.converters import EvtGen2PDGNameMap, EvtGenName2PDGIDBiMap, PDG2EvtGenNameMap
from particle.particle.enums import Inv  # noqa: F401  (kept for the oracle's documentation)

from decaylanguage.decay.decay import DaughtersDict, DecayMode
from decaylanguage.utils.particleutils import charge_conjugate_name

LAST_DETAIL = None


def fail(detail):
    global LAST_DETAIL
    LAST_DETAIL = detail
    return False


# ---- tables read from the installed particle package (the quantifier ranges over them) -----------------
NAME2ID = {str(k): int(v) for k, v in EvtGenName2PDGIDBiMap._to_map.items()}
ID2NAME = {int(k): str(v) for k, v in EvtGenName2PDGIDBiMap._from_map.items()}
EVTGEN_NAMES = sorted(NAME2ID)
PDG_NAMES = sorted(str(k) for k in PDG2EvtGenNameMap._map)
N_EVTGEN, N_PDG = len(EVTGEN_NAMES), len(PDG_NAMES)
UNKNOWN_LABELS = ["Unknown", "MyD0", "x", "K+K-", "ChargeConj(K+)", "anti-", "pi+ ", "D~", "B0sig", "(K+)", "pi++"]


def _self_conjugate_in_db(pdgid: int) -> bool:
    """Independent of ``Particle.invert``: the data-base row says particle and antiparticle are the same."""
    try:
        p = Particle.from_pdgid(pdgid)
    except Exception:
        return False
    return int(p.anti_flag) == 0  # Inv.Same


def oracle_evtgen(name: str) -> str:
    if name in NAME2ID:
        i = NAME2ID[name]
        if -i in ID2NAME:
            return ID2NAME[-i]
        if _self_conjugate_in_db(i):
            return name
    return f"ChargeConj({name})"


def body_names(sel: int) -> bool:
    """selector: 0..N_EVTGEN-1 EvtGen names, then PDG names, then unknown labels"""
    if sel < N_EVTGEN:
        n = EVTGEN_NAMES[sel]
        exp = oracle_evtgen(n)
        got = charge_conjugate_name(n)
        if got != exp:
            return fail(f"charge_conjugate_name({n!r}) = {got!r}, expected {exp!r} (PDG id {NAME2ID[n]})")
        if not exp.startswith("ChargeConj("):
            if exp != n and NAME2ID[got] != -NAME2ID[n]:
                return fail(f"PDG id of {got!r} is not the negated id of {n!r}")
            back = charge_conjugate_name(got)
            if back != n:
                return fail(f"conjugating {n!r} twice gives {back!r}")
        return True
    sel -= N_EVTGEN
    if sel < N_PDG:
        n = PDG_NAMES[sel]
        # whatever was asked earlier in the session (the same spelling under the other naming, the same question) must not matter
        charge_conjugate_name(n)
        first = charge_conjugate_name(n, pdg_name=True)
        got = charge_conjugate_name(n, pdg_name=True)
        if first != got:
            return fail(f"charge_conjugate_name({n!r}, pdg_name=True) answers {first!r}, then {got!r}")
        try:
            ev = PDG2EvtGenNameMap[n]
        except Exception:
            ev = None
        if ev is None:
            return got == f"ChargeConj({n})" or fail(f"PDG name {n!r} without EvtGen name: got {got!r}")
        cev = oracle_evtgen(ev)
        if cev.startswith("ChargeConj("):
            # documented behaviour: conjugate unknown -> marker (an EvtGen->PDG lookup of the marker cannot succeed)
            return got == f"ChargeConj({n})" or fail(f"{n!r}: no known conjugate, must come back as ChargeConj({n}) but got {got!r}")
        try:
            exp = EvtGen2PDGNameMap[cev]
        except Exception:
            return got == f"ChargeConj({n})" or fail(f"{n!r}: conjugate {cev!r} has no PDG name but got {got!r}")
        if got != exp:
            return fail(f"charge_conjugate_name({n!r}, pdg_name=True) = {got!r}, expected {exp!r}")
        back = charge_conjugate_name(got, pdg_name=True)
        # PDG names are not unique per EvtGen name: compare through the EvtGen name
        try:
            if PDG2EvtGenNameMap[back] != ev:
                return fail(f"PDG name {n!r}: twice gives {back!r}")
        except Exception:
            return fail(f"PDG name {n!r}: twice gives unknown {back!r}")
        return True
    sel -= N_PDG
    n = UNKNOWN_LABELS[sel]
    for pdg in (False, True):
        got = charge_conjugate_name(n, pdg_name=pdg)
        if got != f"ChargeConj({n})":
            return fail(f"unknown label {n!r} altered to {got!r} (pdg_name={pdg})")
        # the wrapped label is itself a name without a known conjugate: wrapped again, never unwrapped - whatever was asked before
        again = charge_conjugate_name(got, pdg_name=pdg)
        if again != f"ChargeConj({got})":
            return fail(f"label {got!r} (no known conjugate) altered to {again!r} after {n!r} had been conjugated (pdg_name={pdg})")
        if charge_conjugate_name(n, pdg_name=pdg) != got:
            return fail(f"unknown label {n!r}: the answer changes when asked again")
    return True


N_NAMES = N_EVTGEN + N_PDG + len(UNKNOWN_LABELS)

# ---- final states and decay modes: multiplicities, bf and metadata symbolic ---------------------------
# pool with hand-written conjugates (independent of the code under test)
POOL = [("K+", "K-"), ("pi0", "pi0"), ("D0", "anti-D0"), ("anti-B_s0", "B_s0"), ("K_S0", "K_S0"),
        ("Lambda_c+", "anti-Lambda_c-"), ("nu_tau", "anti-nu_tau"), ("MyAlias", "ChargeConj(MyAlias)"),
        ("K-", "K+"), ("gamma", "gamma"), ("D*+", "D*-"), ("e-", "e+")]
PDGPOOL = [("K(S)0", "K(S)0"), ("pi+", "pi-"), ("D(s)+", "D(s)-"), ("K*(892)0", "K*(892)~0"), ("Unknown", "ChargeConj(Unknown)"),
           ("gamma", "gamma")]
import os as _os

THOROUGH = _os.environ.get("VERIF_TIER") == "thorough"
# quick: the first two names vary, the next two follow by rotation; thorough: three names vary
N_COMBOS = len(POOL) ** (3 if THOROUGH else 2)
N_MULTISET = 2 * N_COMBOS


def _names(sel: int):
    pdg = sel >= N_COMBOS
    sel %= N_COMBOS
    pool = PDGPOOL if pdg else POOL
    a, b, c = sel % len(POOL), (sel // len(POOL)) % len(POOL), sel // (len(POOL) ** 2)
    idx = [a % len(pool), b % len(pool), ((a + 3) if not THOROUGH else c) % len(pool), (a + b + c + 5) % len(pool)]
    return pdg, [pool[i] for i in idx]


def body_multiset(sel: int, m0: int, m1: int, m2: int, m3: int, bf: int, meta_i: int, meta_s: str) -> bool:
    """DaughtersDict / DecayMode conjugation: each conjugate carries exactly its multiplicity; len, bf and all
    metadata preserved; twice = identity.  m*, bf, meta_* are symbolic and unbounded."""
    pdg, names = _names(sel)
    mult = [m0, m1, m2, m3]
    given = {}
    for (n, _), m in zip(names, mult):
        given[n] = given.get(n, 0) + m      # repeated pool names add up
    dd = DaughtersDict(dict(given))
    exp = {}
    for (n, c) in dict.fromkeys(names):
        if given[n] > 0:
            exp[c] = exp.get(c, 0) + given[n]
    cc = dd.charge_conjugate(pdg_name=pdg)
    if not isinstance(cc, DaughtersDict):
        return fail("conjugate is not a DaughtersDict")
    got = dict(cc.items())
    if got != exp:
        return fail(f"conjugate of {given} (pdg_name={pdg}) is {got}, expected {exp}")
    if len(cc) != len(dd):
        return fail(f"number of particles changed: {len(dd)} -> {len(cc)}")
    back = cc.charge_conjugate(pdg_name=pdg)
    marked = any(c.startswith("ChargeConj(") for c in exp)
    if not marked and dict(back.items()) != {k: v for k, v in given.items() if v > 0}:
        return fail(f"twice is not the identity: {dict(back.items())}")
    dm = DecayMode(bf, dd, model="PHSP", model_params=[meta_i, meta_s], study=meta_s, year=meta_i, flag=None)
    cm = dm.charge_conjugate(pdg_name=pdg)
    if cm.bf != bf:
        return fail(f"bf changed {bf} -> {cm.bf}")
    if dict(cm.daughters.items()) != exp:
        return fail(f"mode conjugate daughters {dict(cm.daughters.items())} != {exp}")
    if cm.metadata != {"model": "PHSP", "model_params": [meta_i, meta_s], "study": meta_s, "year": meta_i, "flag": None}:
        return fail(f"metadata changed: {cm.metadata}")
    if dm.bf != bf or dict(dm.daughters.items()) != {k: v for k, v in given.items() if v > 0}:
        return fail("conjugation modified the original mode")
    if len(cm) != len(dm):
        return fail("len of mode changed")
    # metadata given as None stays None
    dn = DecayMode(bf, dd, model=None, model_params=None, note=None)
    cn = dn.charge_conjugate(pdg_name=pdg)
    if cn.metadata != {"model": None, "model_params": None, "note": None}:
        return fail(f"metadata with None values changed: {cn.metadata}")
    return True
