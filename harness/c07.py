"""C07 - global declarations are reported completely, later declarations winning (Engine A bodies)."""
from __future__ import annotations

from particle import Particle
from particle.converters import EvtGenName2PDGIDBiMap

from decaylanguage.dec.enums import PhotosEnum

from .decutil import digits, fail, parse, prod

KINDS = ["alias", "chargeconj", "define", "copydecay", "cdecay", "particle", "pythia", "jetset", "lineshape", "setlspw", "photos"]
NAMES = ["MyB0", "anti-D*0x", "K_1(1270)+", "f'_0(980)"]        # declared names (label alphabet incl. quotes, brackets)
TARGETS = ["B0", "anti-D0", "K+", "f_0"]
VALUES = ["3", "0", "0.25", "1e3", "-2", "0.0", "+1.5", ".5", "007", "2E-4", "-0"]     # zero is a value like any other
# which of up to 4 statements declare the same name: index of the name used by statement i
PATTERNS = [(0, 1, 2, 3), (0, 0, 1, 2), (0, 1, 0, 1), (0, 0, 0, 0), (0, 1, 1, 0), (3, 2, 1, 0), (1, 1, 2, 2), (2, 0, 2, 1)]
import os as _os

THOROUGH = _os.environ.get("VERIF_TIER") == "thorough"
if THOROUGH:       # up to 6 statements of a kind, more repetition patterns
    PATTERNS = [p + (p[0], p[2]) for p in PATTERNS] + [(0, 1, 2, 3, 0, 1), (3, 3, 2, 2, 1, 1), (0, 0, 0, 1, 1, 1), (2, 1, 2, 1, 2, 1)]
R = [len(KINDS), 7 if THOROUGH else 5, len(PATTERNS), 4, 4]
N = prod(R)

SKELETON = ["Decay B0\n1.0 K+ pi- PHSP;\nEnddecay", "Decay D0\n0.5 K- pi+ PHSP;\n0.5 pi0 pi0 PHSP;\nEnddecay"]


def _place(stmts, pos):
    """pos 0: all before the blocks; 1: all after; 2: alternating before / between / after; 3: between the blocks"""
    n = len(stmts)
    a, b = (n + 2) // 3, (2 * n + 2) // 3            # pos 2: first third before, second third between, rest after
    slots = [[], [], []]
    for i, s in enumerate(stmts):                    # file order == list order
        slots[{0: 0, 1: 2, 2: (0 if i < a else 1 if i < b else 2), 3: 1}[pos]].append(s)
    parts = slots[0] + [SKELETON[0]] + slots[1] + [SKELETON[1]] + slots[2]
    return "\n".join(parts) + "\n"


def _ref_width_gev(name):
    return Particle.from_pdgid(int(EvtGenName2PDGIDBiMap[name])).width * 0.001


def body_decl(sel: int) -> bool:
    k, n, pat, pos, voff = digits(sel, R)
    kind = KINDS[k]
    idx = PATTERNS[pat][:n]
    vals = [VALUES[(voff + 3 * i) % len(VALUES)] for i in range(n)]
    stmts, exp = [], None
    if kind == "alias":
        exp = {}
        for i, j in enumerate(idx):
            tgt = TARGETS[(j + i) % 4]
            stmts.append(f"Alias {NAMES[j]} {tgt}")
            exp[NAMES[j]] = tgt
        query = "dict_aliases"
    elif kind == "chargeconj":
        exp = {}
        for i, j in enumerate(idx):
            cc = "anti-" + NAMES[(j + i) % 4]
            stmts.append(f"ChargeConj {NAMES[j]} {cc}")
            exp[NAMES[j]] = cc
        query = "dict_charge_conjugates"
    elif kind == "define":
        exp = {}
        for i, j in enumerate(idx):
            stmts.append(f"Define {NAMES[j]} {vals[i]}")
            exp[NAMES[j]] = float(vals[i])
        query = "dict_definitions"
    elif kind == "copydecay":
        exp = {}
        for i, j in enumerate(idx):
            src = ["B0", "D0", "NoSuch"][(i + voff) % 3]
            stmts.append(f"CopyDecay {NAMES[j]} {src}")
            exp[NAMES[j]] = src
        query = "dict_decays2copy"
    elif kind == "cdecay":
        # at most one CDecay per name; D0 also has a Decay block (the block wins, the statement is still a statement)
        names = [["anti-B0", "D0", "K_1(1270)-", "MyX"][j] for j in dict.fromkeys(idx)]
        stmts = [f"CDecay {x}" for x in names]
        exp = sorted(names)
        query = "list_charge_conjugate_decays"
    elif kind == "particle":
        exp = {}
        pre = ["Alias MyB0 B0", "Alias f'_0(980) f_0"]
        known = {"MyB0": "B0", "f'_0(980)": "f_0", "K_1(1270)+": None, "anti-D*0x": None}
        real = ["MyB0", "D*+", "K_S0", "f'_0(980)"]        # names with a reference width (alias or EvtGen name)
        for i, j in enumerate(idx):
            nm = real[j]
            mass = vals[i].lstrip("+-")
            if (i + voff) % 2 == 0:
                width = VALUES[(voff + i + 1) % len(VALUES)].lstrip("+-")
                stmts.append(f"Particle {nm} {mass} {width}")
                exp[nm] = {"mass": float(mass), "width": float(width)}
            else:
                stmts.append(f"Particle {nm} {mass}")
                exp[nm] = {"mass": float(mass), "width": _ref_width_gev(known.get(nm) or nm)}
        stmts = pre + stmts
        query = "get_particle_property_definitions"
    elif kind == "pythia":
        exp = {}
        cmds = ["PythiaGenericParam", "PythiaAliasParam", "PythiaBothParam"]
        for i, j in enumerate(idx):
            cmd = cmds[(j + voff) % 3]
            mod, par = ["ParticleDecays", "Init", "Next", "Check"][j], ["mixB", "showAll", "nAbort", "x_y"][(i + j) % 4]
            v = vals[i] if (i + voff) % 3 else ["off", "on", "fooBar"][i % 3]
            stmts.append(f"{cmd} {mod}:{par}={v}" if i % 2 else f"{cmd}   {mod} : {par} = {v}")
            try:
                ev = float(v)
            except ValueError:
                ev = v
            exp.setdefault(cmd, {})[f"{mod}:{par}"] = ev
        query = "dict_pythia_definitions"
    elif kind == "jetset":
        exp = {}
        for i, j in enumerate(idx):
            mod, num = ["MSTJ", "PARJ", "MSTU", "PARU"][j], [26, 21, 4, 112][(i + j) % 4]
            stmts.append(f"JetSetPar {mod}({num})={vals[i]}")
            try:
                ev = int(vals[i])
            except ValueError:
                ev = float(vals[i])
            exp.setdefault(mod, {})[num] = ev
        query = "dict_jetset_definitions"
    elif kind == "lineshape":
        exp, dup = {}, False
        for i, j in enumerate(idx):
            form = (i + voff) % 4
            nm = NAMES[j]
            if form == 0:
                ls = ["LSFLAT", "LSNONRELBW", "LSMANYDELTAFUNC"][(i + j) % 3]
                stmts.append(f"{ls} {nm}")
                key, val = "lineshape", ls
            elif form == 1:
                stmts.append(f"BlattWeisskopf {nm} {vals[i]}")
                key, val = "BlattWeisskopf", float(vals[i])
            elif form == 2:
                cm = ["ChangeMassMin", "ChangeMassMax"][(i + j) % 2]
                stmts.append(f"{cm} {nm} {vals[i]}")
                key, val = cm, float(vals[i])
            else:
                fac = ["IncludeBirthFactor", "IncludeDecayFactor"][(i + j) % 2]
                yn = ["yes", "no"][(i + voff + j) % 2]
                stmts.append(f"{fac} {nm} {yn}")
                key, val = fac, yn == "yes"
            if key in exp.get(nm, {}):
                dup = True
            exp.setdefault(nm, {})[key] = val
        query = "dict_lineshape_settings"
        if dup:
            exp = RuntimeError
        else:
            # the query groups by kind of statement, not by file order: compare as nested dicts
            pass
    elif kind == "setlspw":
        exp = []
        for i, j in enumerate(idx):
            trip = [NAMES[j], TARGETS[(i + j) % 4], NAMES[(j + 1) % 4]]
            pw = ["0", "1", "2", "3"][(i + voff) % 4]
            stmts.append("SetLineshapePW " + " ".join(trip) + " " + pw)
            exp.append((trip, int(pw)))
        query = "list_lineshapePW_definitions"
    else:
        flags = [["yesPhotos", "noPhotos"][(voff + j + i) % 2] for i, j in enumerate(idx)]
        stmts = flags
        exp = (PhotosEnum.yes if flags[-1] == "yesPhotos" else PhotosEnum.no) if flags else PhotosEnum.no
        query = "global_photos_flag"
    text = _place(stmts, pos)
    if kind == "particle" and voff % 2:
        # an earlier file of the session aliases the same names to other particles (and leaves the width to the reference value)
        parse("Alias MyB0 K*0\nAlias f'_0(980) rho0\nParticle MyB0 0.892\nParticle f'_0(980) 0.77\nParticle K_S0 0.5\n").get_particle_property_definitions()
    p = parse(text)
    try:
        got = getattr(p, query)()
    except RuntimeError as e:
        if exp is RuntimeError:
            return True
        return fail(f"{query}() raised {e!r} for {text!r}")
    if exp is RuntimeError:
        return fail(f"{query}() accepted a repeated lineshape setting: {got} for {text!r}")
    if got != exp:
        return fail(f"{query}() = {got!r}, expected {exp!r} for {text!r}")
    if kind == "jetset":
        for mod, d in got.items():
            for kk, v in d.items():
                if type(v) is not type(exp[mod][kk]) or type(kk) is not int:
                    return fail(f"jetset value types: {got!r} vs {exp!r}")
    if kind in ("alias", "chargeconj", "copydecay") and list(got.items()) != list(exp.items()):
        return fail(f"{query}() order {list(got.items())} != {list(exp.items())}")
    if kind == "photos" and not isinstance(got, PhotosEnum):
        return fail("flag is not a PhotosEnum")
    # declarations do not disturb the decay tables of the explicit blocks
    if p.list_decay_modes("D0") != [["K-", "pi+"], ["pi0", "pi0"]]:
        return fail(f"decay table of D0 disturbed: {p.list_decay_modes('D0')}")
    return True


# ---- numbers as numbers, for every value: the query functions on hand-built trees whose numeric tokens carry symbolic floats -----------
class Tok:
    """stand-in for a lark Token: the query functions only read ``.value``"""

    def __init__(self, value):
        self.value = value


N_VALUES = 8


def body_values(sel: int, x: float, y: float) -> bool:
    from lark import Tree
    from decaylanguage.dec import dec as D
    T = lambda name, *ch: Tree(name, list(ch))
    if sel == 0:
        tree = T("start", T("define", Tok("a"), Tok(x)), T("define", Tok("b"), Tok(y)), T("define", Tok("a"), Tok(y)))
        got, exp = D.get_definitions(tree), {"a": y, "b": y}
    elif sel == 1:
        tree = T("start", T("particle_def", Tok("MyRho"), Tok(x), Tok(y)), T("particle_def", Tok("Other"), Tok(y), Tok(x)))
        got, exp = D.get_particle_property_definitions(tree), {"MyRho": {"mass": x, "width": y}, "Other": {"mass": y, "width": x}}
    elif sel == 2:
        tree = T("start", T("setlsbw", Tok("P1"), Tok(x)), T("changemasslimit", Tok("ChangeMassMin"), Tok("P1"), Tok(y)),
                 T("changemasslimit", Tok("ChangeMassMax"), Tok("P2"), Tok(x)))
        got = D.get_lineshape_settings(tree)
        exp = {"P1": {"BlattWeisskopf": x, "ChangeMassMin": y}, "P2": {"ChangeMassMax": x}}
    elif sel == 3:
        tree = T("start", T("pythia_def", Tok("PythiaBothParam"), Tok("Mod"), Tok("par"), Tok(x)),
                 T("pythia_def", Tok("PythiaBothParam"), Tok("Mod"), Tok("par2"), Tok(y)),
                 T("pythia_def", Tok("PythiaAliasParam"), Tok("Mod"), Tok("par"), Tok("on")))
        got = D.get_pythia_definitions(tree)
        exp = {"PythiaBothParam": {"Mod:par": x, "Mod:par2": y}, "PythiaAliasParam": {"Mod:par": "on"}}
    elif sel in (4, 5):
        line = T("decayline", T("value", Tok(x)), T("particle", Tok("K+")), T("particle", Tok("K-")),
                 T("model", Tok("SVS_CP"), T("model_options", T("value", Tok(y)), Tok("word"), T("value", Tok(x)))))
        if sel == 4:
            got = (D.get_branching_fraction(line), D.get_model_parameters(line), D.get_final_state_particle_names(line), D.get_model_name(line))
            exp = (x, [y, "word", x], ["K+", "K-"], "SVS_CP")
        else:
            # the Define visitor turns numeric parameters into floats and leaves the rest
            D.DecayModelParamValueReplacement(define_defs={"word": y}).visit(line)
            got, exp = D.get_model_parameters(line), [y, y, x]
    elif sel == 6:
        tree = T("start", T("particle_def", Tok("K_S0"), Tok(x)), T("alias", Tok("MyK"), Tok("K_S0")), T("particle_def", Tok("MyK"), Tok(y)))
        got = D.get_particle_property_definitions(tree)
        w = _ref_width_gev("K_S0")
        exp = {"K_S0": {"mass": x, "width": w}, "MyK": {"mass": y, "width": w}}
    else:
        tree = T("start", T("setlsbw", Tok("P1"), Tok(x)), T("setlsbw", Tok("P1"), Tok(y)))
        try:
            got = D.get_lineshape_settings(tree)
        except RuntimeError:
            return True
        return fail(f"a repeated BlattWeisskopf setting was accepted: {got}")
    if got != exp:
        return fail(f"query on a tree with numeric values x={x!r}, y={y!r}: {got!r}, expected {exp!r}")
    return True
