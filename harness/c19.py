"""C19 - C++ and Python GooFit outputs describe the same, self-contained model (Engine A body)."""
from __future__ import annotations

import re
import sys

from . import gen
from .decutil import fail

RBW_ONLY = [e for e in gen.FAMILY if all(k == "RBW" for _, k, _ in e[5])]
NO_SPLINE = [e for e in gen.FAMILY if all(k != "GSpline" for _, k, _ in e[5])]
VARIANTS = ["all parameter families", "K-matrix parameters only (no constants at all)", "no parameter lines", "shipped model"]
N_WHOLE = 12 * 2 * 3 + 1


def _decls_cpp(text):
    d = {}
    d["event"] = re.findall(r"// Event type: (.*)", text)
    d["masses"] = [(n, float(v)) for n, v in re.findall(r"constexpr fptype (\w+)\s*\{ ([-+.\deE]+)\s*\};", text)]
    d["resonances"] = [(n, q, float(v)) for n, q, v in re.findall(r'Variable (\w+)\s*\{ "(\w+)"\s*, ([-+.\deE]+)\s*\};', text)]
    d["parameters"] = [(n, q, float(v), None if e is None or e == "" else float(e))
                       for n, q, v, e in re.findall(r'Variable (\w+) \{"([^"]+)", ([-+.\deE]+)(?:, ([-+.\deE]+))? \};', text)]
    d["arrays"] = [(n, re.findall(r"\w+", body)) for n, body in re.findall(r"std::vector<Variable>\s+(\w+) \{\{\n(.*?)\n    \}\};", text, re.S)]
    d["masses_vector"] = re.findall(r"DK3P_DI\.particle_masses = \{(.*?)\};", text)
    return d


def _decls_py(text):
    d = {}
    d["event"] = re.findall(r"#Event type: (.*)", text)
    d["masses"] = [(n, float(v)) for n, v in re.findall(r"^([A-Z][A-Z0-9_]*)\s+= ([-+.\deE]+)\s*$", text, re.M)]
    d["resonances"] = [(n, q, float(v)) for n, q, v in re.findall(r'^(\w+)\s+= Variable\("(\w+)"\s*, ([-+.\deE]+)\s*\)$', text, re.M)
                       if n.endswith(("_M", "_W")) and n == q]
    d["parameters"] = [(n, q, float(v), None if e is None or e == "" else float(e))
                       for n, q, v, e in re.findall(r'^(\w+) = Variable\("([^"]+)", ([-+.\deE]+)(?:, ([-+.\deE]+) )?\)$', text, re.M)]
    d["arrays"] = [(n, re.findall(r"\w+", body)) for n, body in re.findall(r"^(\w+) =\s+\[\n(.*?)\]$", text, re.S | re.M)]
    d["masses_vector"] = re.findall(r"DK3P_DI\.particle_masses = \((.*?)\)", text)
    return d


def _amps(text, lang):
    """[(name, (real name, fixed, value), (imag name, fixed, value), spin factors, lineshapes, declared permutations)] per amplitude block"""
    out = []
    blocks = re.split(r"(?:// Line \d+|# Line \d+)\n", text)[1:]
    for b in blocks:
        name = gen.AMP_NAME_RE.findall(b)
        if lang == "cpp":
            coefs = [(n, fx == "true", round(float(v), 6)) for n, fx, v, e in gen.COEF_CPP.findall(b)]
        else:
            coefs = [(n, e == "", round(float(v), 6)) for n, v, e in gen.COEF_PY.findall(b)]
        sf = [(m[0], tuple(int(x) for x in m[1:])) for m in gen.SF_RE.findall(b)]
        ls = []
        for k, n, mid, L, m in gen.LS_RE.findall(b):
            args = re.findall(r"[\w.:]+", mid)
            args = [a.replace("::FOCUS::Mod::", ".").replace("Lineshapes.FocusMod.", "Lineshapes.").replace("Lineshapes::", "Lineshapes.").lower()
                    if not re.fullmatch(r"[-+.\d]+", a) else a for a in args]
            ls.append((k, n, tuple(args), int(L), m))
        out.append((name, coefs, sf, ls, gen.NPERM_RE.findall(b)))
    return out


def _declared_before_use_cpp(text):
    declared = set()
    for ln in text.splitlines():
        m = re.match(r"\s*(?:constexpr fptype|Variable|std::vector<Variable>)\s+(\w+)", ln)
        used = set(re.findall(r"\b(\w+_(?:M|W)|\w+_SplineArr|f_scatt|IS_poles|sA_0|sA|s0_prod|s0_scatt)\b", ln)) if "Lineshapes::" in ln or ln.strip().startswith(
            ("sA_0", "f_scatt,", "PiPi", "KPi")) or re.match(r"\s+\w+_M, \w+_W,", ln) else set()
        if m is None:
            missing = {u for u in used if u not in declared}
            if missing:
                return f"C++ output uses {sorted(missing)} before / without declaring them: {ln.strip()!r}"
        else:
            declared.add(m.group(1))
    return None


def body_whole(sel: int) -> bool:
    if sel == N_WHOLE - 1:
        fn, variant = "/repo/models/DtoKpipipi_v2.txt", 3
    else:
        start, rest = sel % 12, sel // 12
        ev, variant = rest % 2, rest // 2
        pool = gen.FAMILY if variant == 0 else NO_SPLINE if variant == 1 else RBW_ONLY
        entries = [pool[(start + 3 * j) % len(pool)] for j in range(3)]
        params = [gen.PARAMS, gen.PARAMS_KMATRIX_ONLY, ""][variant]
        fn = gen.write_tmp(f"whole_{sel}.txt", gen.text_of(entries, gen.EVENT_TYPES[ev * 2], params, coupling_offset=start))
    res = {}
    for lang in ("cpp", "py"):
        try:
            gen.reset_state()
            ret, printed_with_ret = gen.convert(fn, lang, True)
            gen.reset_state()
            none, printed = gen.convert(fn, lang, False)
        except Exception as e:
            return fail(f"{fn} ({VARIANTS[variant]}): conversion to {lang} raised {type(e).__name__}: {str(e)[:300]}")
        if none is not None:
            return fail("the printing call returned a value")
        if printed_with_ret.strip():
            return fail(f"{lang}: ret_output=True still prints {printed_with_ret[:120]!r}")
        if gen.strip_time(ret).rstrip("\n") != gen.strip_time(printed).rstrip("\n"):
            a, b = gen.strip_time(ret).splitlines(), gen.strip_time(printed).splitlines()
            diff = [(x, y) for x, y in zip(a, b) if x != y][:2]
            return fail(f"{lang}: the returned text is not the printed text ({len(a)} vs {len(b)} lines; first differences {diff})")
        res[lang] = ret
    cpp, py = res["cpp"], res["py"]
    # --- the command-line entry point prints the same text (a fresh interpreter with the same hash seed)
    if sel % 9 == 0 or sel == N_WHOLE - 1:
        import os
        import subprocess
        for lang, gen_name in (("cpp", "goofit"), ("py", "goofitpy")):
            env = dict(os.environ)
            r = subprocess.run([sys.executable, "-m", "decaylanguage", "-G", gen_name, fn], capture_output=True, text=True, timeout=600, env=env)
            if r.returncode != 0:
                return fail(f"python -m decaylanguage -G {gen_name} {fn} exits with {r.returncode}: {r.stderr[-300:]}")
            if gen.strip_time(r.stdout).rstrip("\n") != gen.strip_time(res[lang]).rstrip("\n"):
                a, b = gen.strip_time(r.stdout).splitlines(), gen.strip_time(res[lang]).splitlines()
                diff = [(x, y) for x, y in zip(a, b) if x != y][:2]
                return fail(f"command line -G {gen_name}: output differs from the function call ({len(a)} vs {len(b)} lines, {diff})")
    # converting another file in between must not change what this file converts to (same language, A - B - A)
    other = gen.write_tmp("other.txt", gen.text_of([gen.FAMILY[0]], gen.EVENT_TYPES[0], "D0_radius 2 0.5 0\nOtherPar 0 1.0 0.5\n"))
    for lang in ("cpp", "py"):
        try:
            gen.reset_state()
            gen.convert(other, lang, True)
            gen.reset_state()
            again, _ = gen.convert(fn, lang, True)
        except Exception as e:
            return fail(f"{fn}: converting again after another file raised {type(e).__name__}: {str(e)[:200]}")
        if gen.strip_time(again) != gen.strip_time(res[lang]):
            a, b = gen.strip_time(again).splitlines(), gen.strip_time(res[lang]).splitlines()
            diff = [(x, y) for x, y in zip(a, b) if x != y][:2]
            return fail(f"{lang}: the same file converts differently after another file was converted ({len(a)} vs {len(b)} lines, {diff})")
    # --- the Python output is valid Python and runs against the GooFit API (recording stand-in)
    try:
        code = compile(py, "<goofit python output>", "exec")
    except SyntaxError as e:
        return fail(f"Python output does not compile: {e}")
    old = sys.modules.get("goofit")
    sys.modules["goofit"] = gen.fake_goofit()
    try:
        ns = {"__name__": "generated"}
        if variant == 3:
            # the shipped model does not define the four K-matrix scalars its lineshapes use (outside the premise "defines the
            # parameters those lineshapes need"): they are supplied from outside, everything else must be self-contained
            ns.update({k: 0.0 for k in ("sA_0", "sA", "s0_prod", "s0_scatt")})
        exec(code, ns)
    except Exception as e:
        return fail(f"Python output fails when run against the GooFit stand-in ({VARIANTS[variant]}): {type(e).__name__}: {e}")
    finally:
        if old is None:
            sys.modules.pop("goofit", None)
        else:
            sys.modules["goofit"] = old
    err = _declared_before_use_cpp(cpp)
    if err and variant == 3 and re.search(r"uses \[('(sA_0|sA|s0_prod|s0_scatt)'(, )?)+\] before", err):
        err = None
    if err:
        return fail(err)
    dc, dp = _decls_cpp(cpp), _decls_py(py)
    for k in ("event", "masses_vector"):
        if dc[k] != dp[k] or len(dc[k]) != 1:
            return fail(f"{k}: C++ {dc[k]} vs Python {dp[k]}")
    for k in ("masses", "resonances", "parameters"):
        if sorted(dc[k], key=repr) != sorted(dp[k], key=repr):
            only_c = [x for x in dc[k] if x not in dp[k]][:3]
            only_p = [x for x in dp[k] if x not in dc[k]][:3]
            return fail(f"{k} differ between the outputs ({VARIANTS[variant]}): only C++ {only_c}, only Python {only_p}")
    if sorted(dc["arrays"]) != sorted(dp["arrays"]):
        return fail(f"parameter arrays differ: C++ {dc['arrays']} vs Python {dp['arrays']}")
    ac, ap = _amps(cpp, "cpp"), _amps(py, "py")
    if len(ac) != len(ap) or not ac:
        return fail(f"{len(ac)} amplitudes in C++, {len(ap)} in Python")
    for x, y in zip(ac, ap):
        if x != y:
            which = [i for i in range(5) if x[i] != y[i]]
            return fail(f"amplitude {x[0]}: outputs differ in {[['name', 'coefficients', 'spin factors', 'lineshapes', 'permutations'][i] for i in which]}: "
                        f"C++ {[x[i] for i in which]} vs Python {[y[i] for i in which]}")
        name, coefs = x[0], x[1]
        if len(name) != 1 or len(coefs) != 2 or coefs[0][0] == coefs[1][0] or coefs[0][0] != name[0] + "_r" or coefs[1][0] != name[0] + "_i":
            return fail(f"coefficient names of {name}: {coefs}")
    return True

