"""C09 / C10 - decay chains are the recursive unfolding of the tables; expansion enumerates every path once."""
from __future__ import annotations

from collections import Counter
from itertools import product

from decaylanguage.dec.dec import DecayNotFound

from .decutil import digits, fail, parse, prod

# particles P0..P4 (acyclic: daughters of Pi are Pj with j > i, or leaves); names exercise the label alphabet
P = ["B0sig", "MyD*-", "K_1(1270)+", "f'_0", "anti-Xi_c0"]
ALIASES = {"MyD*-": "D*-"}                               # a decaying alias: shown under the particle it aliases (C10)
LEAVES = ["pi+", "gamma", "nu_e", "MyStable", "K~0x"]
ALIASES_STABLE = {"MyStable": "pi0"}                     # an alias that does not decay keeps its name
N_CODES = 7


def table(i, code):
    """decay lines of particle i for a table code; None = no Decay block at all"""
    n1 = P[i + 1] if i + 1 < len(P) else LEAVES[i % 5]
    n2 = P[i + 2] if i + 2 < len(P) else LEAVES[(i + 1) % 5]
    n3 = P[i + 3] if i + 3 < len(P) else LEAVES[(i + 2) % 5]
    lx, ly, lz = LEAVES[i % 5], LEAVES[(i + 2) % 5], LEAVES[(i + 3) % 5]
    if code == 0:
        return None
    if code == 1:
        return []
    if code == 2:
        return [("1.0", [n1, lx], "PHSP", "")]
    if code == 3:
        return [("0.6", [n1, n1, ly], "VSS", ""), ("0.4", [n2, lz], "HELAMP", "1.0 0.0")]
    if code == 4:
        return [("0.5", [lx], "PHSP", ""), ("0.25", [n2, n1, lx, n1], "PHSP", ""), ("0.25", [n1], "PHSP", "")]
    if code == 5:
        return [("0.2", [n1, n2, n3], "PHSP", ""), ("0.2", [lx, ly], "PHSP", ""), ("0.2", [n3, n3], "SVS", ""),
                ("0.2", [n2], "PHSP", ""), ("0.2", [ly, n1, lz, n2], "PHOTOSX", "")]
    return [("0.7", [n2, n2], "PHSP", ""), ("0.3", [n1, n2, n1, n2], "PHSP", "")]     # code 6: deep products


def _block(name, lines, i):
    out = [f"Decay {name}"]
    for bf, ds, mo, pa in lines:
        mo = "PHSP" if mo == "PHOTOSX" else mo
        out.append(" ".join([bf] + ds + (["PHOTOS"] if (len(ds) + i) % 2 else []) + [mo] + ([pa] if pa else [])) + ";")
    return out + ["Enddecay"]


def build(codes, twin=0, defmode=0):
    """tables: what every particle's table is (the oracle's view); text: how the file states it.
    defmode 1: P3's table is a CopyDecay of a block of another name; 2: P4's table is created by CDecay from its conjugate's block"""
    tables = {}
    order = [2, 0, 4, 1, 3]                              # blocks are written in an order unrelated to the hierarchy
    for i, c in enumerate(codes):
        t = table(i, c)
        if t is not None:
            tables[P[i]] = t
    if twin and P[0] in tables and tables[P[0]]:
        # the particle that MyD*- aliases decays too (differently) and sits next to its alias
        tables["D*-"] = [("0.9", ["gamma", "pi+"], "PHSP", ""), ("0.1", [P[4], "gamma"], "PHSP", "")]
        bf, ds, mo, pa = tables[P[0]][0]
        tables[P[0]] = [(bf, ds + ["D*-"], mo, pa)] + tables[P[0]][1:]
    out = ["Alias MyD*- D*-", "Alias MyStable pi0"]
    text_tables = dict(tables)
    if defmode == 1 and P[3] in tables:
        text_tables.pop(P[3])
        out += _block("Orig3", tables[P[3]], 3) + [f"CopyDecay {P[3]} Orig3"]
        tables["Orig3"] = tables[P[3]]
    if defmode == 2 and P[4] in tables:
        src = tables[P[4]]
        text_tables.pop(P[4])
        out += [f"CDecay {P[4]}"] + _block("Xi_c0", src, 4)
        tables["Xi_c0"] = src
        tables[P[4]] = [(bf, [CC[d] for d in ds], mo, pa) for bf, ds, mo, pa in src]
    for i in order:
        if P[i] in text_tables:
            out += _block(P[i], text_tables[P[i]], i)
    if "D*-" in tables:
        out += _block("D*-", tables["D*-"], 1)
    return tables, "\n".join(out) + "\n"


OTHER_TEXT = "\n".join(f"Decay {n}\n0.5 gamma gamma PHSP;\n0.5 e+ e- PHSP;\nEnddecay" for n in P + ["D*-", "Xi_c0"]) + "\n"


def earlier_session():
    """another parser used earlier in the same session defines the same names differently: nothing of it may survive"""
    q = parse(OTHER_TEXT)
    for n in P[:3]:
        q.build_decay_chains(n)
        q.expand_decay_modes(n)
        q.build_decay_chains(n, stable_particles=["gamma"])


def _query_all(p):
    for n in P + ["D*-", "Xi_c0", "Orig3"]:
        try:
            p.build_decay_chains(n)
            p.list_decay_modes(n)
        except DecayNotFound:
            pass


def _reparse(p, include_cc):
    import warnings
    with warnings.catch_warnings():
        warnings.simplefilter("ignore")
        p.parse(include_ccdecays=include_cc)


def oracle_chain(tables, m, S):
    out = []
    for bf, ds, mo, pa in tables[m]:
        mo = "PHSP" if mo == "PHOTOSX" else mo
        fs = [d if (d in S or d not in tables) else oracle_chain(tables, d, S) for d in ds]
        out.append({"bf": float(bf), "fs": fs, "model": mo, "model_params": [float(x) for x in pa.split()] if pa else ""})
    return {m: out}


CODES3 = [0, 1, 2, 4, 5]
CODES4 = [0, 1, 2, 4]
# table codes of P0..P4, then: D*- (the particle MyD*- aliases) also decays and is a daughter of P0 | how P3 / P4 get their table
R_CHAIN = [N_CODES, N_CODES, 5, len(CODES3), len(CODES4), 2, 3]
N_CHAINS = prod(R_CHAIN)
CC = {"pi+": "pi-", "gamma": "gamma", "nu_e": "anti-nu_e", "MyStable": "ChargeConj(MyStable)", "K~0x": "ChargeConj(K~0x)"}


def family(sel):
    c0, c1, c2, c3, c4, twin, defmode = digits(sel, R_CHAIN)
    return [c0, c1, [0, 1, 2, 3, 6][c2], CODES3[c3], CODES4[c4]], twin, defmode
STABLE_SETS = None


def _stable_sets(tier_all: bool):
    names = P + ["pi+"]
    sets = []
    for mask in range(2 ** len(names)):
        sets.append([names[k] for k in range(len(names)) if (mask >> k) & 1])
    return sets


ALL_SETS = _stable_sets(True)


def body_chains(sel: int) -> bool:
    """every mother with a table x every stable set over the particles involved: build_decay_chains == recursive definition"""
    import os
    codes, twin, defmode = family(sel)
    tables, text = build(codes, twin, defmode)
    if sel % 3 == 2:
        earlier_session()
    hist = sel % 5
    if hist == 1:
        # the same parser object was first parsed without charge conjugates and queried, then parsed again: only the last parse counts
        p = parse(text, include_cc=False)
        _query_all(p)
        _reparse(p, True)
    elif hist == 3:
        # ... and the other way round: tables created by CDecay are gone again after parsing without conjugates
        p = parse(text)
        _query_all(p)
        _reparse(p, False)
        if defmode == 2 and P[4] in tables:
            tables = {k: v for k, v in tables.items() if k != P[4]}
    else:
        p = parse(text)
    sets = ALL_SETS if os.environ.get("VERIF_TIER") == "thorough" else [ALL_SETS[(sel * 7 + k * 9) % len(ALL_SETS)] for k in range(8)]
    if sel % 2 == 0:
        # what was asked before does not matter: chains expanded into descriptors, and chains whose returned structure the caller edited
        for m in tables:
            if tables[m] and oracle_count(tables, m) <= 300:
                p.expand_decay_modes(m)
            r = p.build_decay_chains(m)
            r[m].clear()
            r["edited"] = True
        sets = [[]] + list(sets)
    for mi, m in enumerate(P + ["D*-", "Xi_c0", "Orig3"]):
        if m in ("D*-", "Xi_c0", "Orig3") and m not in tables:
            continue
        if m not in tables:
            for S in ([], [P[0]]):
                try:
                    r = p.build_decay_chains(m, stable_particles=S)
                    return fail(f"{m!r} has no table but build_decay_chains returned {r}; text {text!r}")
                except DecayNotFound:
                    pass
            continue
        live = [] if mi % 2 == 0 else set()        # one container object the caller keeps and edits in place between calls (C09-m12)
        for k, S in enumerate(sets):
            if k % 4 in (1, 2):
                live.clear()
                (live.extend if isinstance(live, list) else live.update)(S)
                Sarg = live
            else:
                Sarg = [list, tuple, set][k % 3](S)
            got = p.build_decay_chains(m, stable_particles=Sarg)
            exp = oracle_chain(tables, m, set(S))
            if got != exp:
                return fail(f"build_decay_chains({m!r}, stable={Sarg!r}) = {got}, expected {exp}; text {text!r}")
    return True


# ---- C10 --------------------------------------------------------------------------------------------------------------
def oracle_expand(tables, m, top=True):
    shown = ALIASES.get(m, m)
    res = []
    for bf, ds, mo, pa in tables[m]:
        opts = []
        for d in ds:
            if d in tables and tables[d]:
                opts.append(oracle_expand(tables, d, False))
            else:
                opts.append([d])
        for combo in product(*opts):
            body = f"{shown} -> {' '.join(sorted(combo))}"
            res.append(body if top else f"({body})")
    return res


def oracle_count(tables, m):
    n = 0
    for bf, ds, mo, pa in tables[m]:
        k = 1
        for d in ds:
            if d in tables and tables[d]:
                k *= oracle_count(tables, d)
        n += k
    return n


def body_expand(sel: int) -> bool:
    codes, twin, defmode = family(sel)
    tables, text = build(codes, twin, defmode)
    if sel % 3 == 2:
        earlier_session()
    p = parse(text)
    if sel % 2:
        # an earlier chain-building call with some particles forced stable must not influence the expansion
        if P[0] in tables:
            p.build_decay_chains(P[0], stable_particles=[P[1], P[2], P[4]])
        if P[1] in tables:
            p.build_decay_chains(P[1], stable_particles=(P[3],))
    for m in P + ["D*-", "Xi_c0", "Orig3"]:
        if m in ("D*-", "Xi_c0", "Orig3") and m not in tables:
            continue
        if m not in tables:
            try:
                r = p.expand_decay_modes(m)
                return fail(f"{m!r} has no table but expand_decay_modes returned {r}")
            except DecayNotFound:
                continue
        n = oracle_count(tables, m)
        if n > 4000:
            continue                     # outside the size bound of this harness
        got = p.expand_decay_modes(m)
        exp = oracle_expand(tables, m)
        if len(got) != n:
            return fail(f"expand_decay_modes({m!r}) has {len(got)} descriptors, the tables give {n} paths; text {text!r}")
        if Counter(got) != Counter(exp):
            miss = list((Counter(exp) - Counter(got)).items())[:2]
            extra = list((Counter(got) - Counter(exp)).items())[:2]
            return fail(f"expand_decay_modes({m!r}): missing {miss}, unexpected {extra}; text {text!r}")
        # a second call gives the same list (the expansion works in place on a freshly built chain)
        if p.expand_decay_modes(m) != got:
            return fail(f"expand_decay_modes({m!r}) differs between two calls")
    return True


# ---- branching fractions and parameters of nested chains for every numeric value (hand-built tree behind a Lark stub) ----------------
N_VALUES = 3


def body_chain_values(sel: int, x: float, y: float, z: float) -> bool:
    import warnings
    from lark import Tree
    import decaylanguage.dec.dec as decmod
    from decaylanguage.dec.dec import DecFileParser
    from .c01 import Tok, _StubLark
    T = lambda name, *ch: Tree(name, list(ch))

    def line(bf, ds, params=None):
        m = [Tok("HELAMP")] + ([T("model_options", *[T("value", Tok(p)) for p in params])] if params else [])
        return T("decayline", T("value", Tok(bf)), *[T("particle", Tok(d)) for d in ds], T("model", *m))

    def block(m, *lines):
        return T("decay", T("particle", Tok(m)), *lines)

    tree = T("start", block("D0", line(y, ["K_S0", "pi0", "K_S0"], [z, x]), line(z, ["pi0"])), block("B0", line(x, ["D0", "K_S0", "D0"])),
             block("K_S0", line(z, ["pi+", "pi-"], [y])), block("pi0"))
    _StubLark.tree = tree
    old = decmod.Lark
    decmod.Lark = _StubLark
    try:
        p = DecFileParser.from_string("given as a tree")
        with warnings.catch_warnings():
            warnings.simplefilter("ignore")
            p.parse()
    finally:
        decmod.Lark = old
    S = [[], ["K_S0"], ["D0", "pi0"]][sel]
    ks = "K_S0" if "K_S0" in S else {"K_S0": [{"bf": z, "fs": ["pi+", "pi-"], "model": "HELAMP", "model_params": [y]}]}
    p0 = "pi0" if "pi0" in S else {"pi0": []}
    d0 = "D0" if "D0" in S else {"D0": [{"bf": y, "fs": [ks, p0, ks], "model": "HELAMP", "model_params": [z, x]},
                                        {"bf": z, "fs": [p0], "model": "HELAMP", "model_params": ""}]}
    exp = {"B0": [{"bf": x, "fs": [d0, ks, d0], "model": "HELAMP", "model_params": ""}]}
    got = p.build_decay_chains("B0", stable_particles=S)
    if got != exp:
        return fail(f"chain for x={x!r}, y={y!r}, z={z!r}, stable {S}: {got!r}, expected {exp!r}")
    return True
