"""C08 - copied and derived tables are independent; queries never change the parser (Engine A bodies)."""
from __future__ import annotations

import contextlib
import io
import warnings

from lark import Token, Tree

from .c02 import BASES, render
from .decutil import details, digits, fail, parse, prod, snapshot

EXTRA_BASE = [
    ["Define", "dm", "0.5"], ["ModelAlias", "MA", "VSS_BMIX", ("dm",), ";"], ["Alias", "MyD+", "D+"], ["Alias", "MyD-", "D-"],
    ["ChargeConj", "MyD+", "MyD-"], ["Decay", "D+"], ["0.6", "K-", "pi+", "pi+", "PHOTOS", "D_DALITZ", ";"],
    ["0.4", "K_S0", "pi+", "MA", ";"], ["Enddecay"], ["CopyDecay", "MyD+", "D+"], ["CDecay", "MyD-"], ["CDecay", "D-"],
    ["Decay", "K_S0"], ["0.7", "pi+", "pi-", "PHSP", ";"], ["0.3", "pi0", "pi0", "PHSP", ";"], ["Enddecay"],
    ["Decay", "B0"], ["1.0", "MyD-", "D+", "K_S0", "K_S0", "PHSP", ";"], ["Enddecay"], ["CopyDecay", "MyB0", "B0"],
]
TEXTS = [render(b, 0) for b in BASES] + [render(EXTRA_BASE, 0)]
SENTINEL = "<<mutated>>"


def _mutate(r):
    """in-place modification of whatever a query returned"""
    if isinstance(r, dict):
        for k in list(r):
            if isinstance(r[k], (dict, list)):
                _mutate(r[k])
            else:
                r[k] = SENTINEL
        r[SENTINEL] = SENTINEL
    elif isinstance(r, list):
        for i in range(len(r)):
            if isinstance(r[i], (dict, list)):
                _mutate(r[i])
            else:
                r[i] = SENTINEL
        r.append(SENTINEL)
        r.reverse()
    elif isinstance(r, set):
        r.clear()


def _ops(p):
    """name -> thunk, for every public query (with several argument shapes); mothers taken from the instance"""
    ms = p.list_decay_mother_names()
    first, last = ms[0], ms[-1]
    daughters = [d for m in ms for mode in p.list_decay_modes(m) for d in mode]
    stable = sorted(set(daughters))[:2]
    ops = {
        "dict_decays2copy": p.dict_decays2copy, "dict_definitions": p.dict_definitions, "dict_model_aliases": p.dict_model_aliases,
        "dict_aliases": p.dict_aliases, "dict_charge_conjugates": p.dict_charge_conjugates,
        "get_particle_property_definitions": p.get_particle_property_definitions, "dict_pythia_definitions": p.dict_pythia_definitions,
        "dict_jetset_definitions": p.dict_jetset_definitions, "dict_lineshape_settings": p.dict_lineshape_settings,
        "list_lineshapePW_definitions": p.list_lineshapePW_definitions, "list_charge_conjugate_decays": p.list_charge_conjugate_decays,
        "list_decay_mother_names": p.list_decay_mother_names,
        "list_decay_modes(first)": lambda: p.list_decay_modes(first), "list_decay_modes(last)": lambda: p.list_decay_modes(last),
        "details(first)": lambda: details(p, first), "details(last)": lambda: details(p, last, False),
        "build_decay_chains(first)": lambda: p.build_decay_chains(first),
        "build_decay_chains(last)": lambda: p.build_decay_chains(last),
        "build_decay_chains(first, stable)": lambda: p.build_decay_chains(first, stable_particles=stable),
        "build_decay_chains(last, stable=all)": lambda: p.build_decay_chains(last, stable_particles=set(daughters)),
        "expand_decay_modes(first)": lambda: p.expand_decay_modes(first), "expand_decay_modes(last)": lambda: p.expand_decay_modes(last),
        "print_decay_modes(first)": lambda: _print(p, first), "print_decay_modes(last, normalize)": lambda: _print(p, last, normalize=True),
        "print_decay_modes(first, ascending, scale)": lambda: _print(p, first, ascending=True, scale=0.5),
        "global_photos_flag": p.global_photos_flag, "number_of_decays": lambda: p.number_of_decays, "repr": lambda: repr(p),
    }
    return ops


def _print(p, m, **kw):
    with contextlib.redirect_stdout(io.StringIO()):
        try:
            p.print_decay_modes(m, **kw)
        except (RuntimeError, ZeroDivisionError, IndexError):
            pass


N_OPS = 28
R_SEQ = [len(TEXTS), N_OPS, N_OPS]
N_SEQ = prod(R_SEQ)


R_SEQ3 = [len(TEXTS), N_OPS, N_OPS, N_OPS]
N_SEQ3 = prod(R_SEQ3)


def body_seq3(sel: int) -> bool:
    """three queries in a row (thorough tier)"""
    b, i, j, k = digits(sel, R_SEQ3)
    return _seq(b, (i, j, k))


def body_seq(sel: int) -> bool:
    """two queries in a row on one instance, each returned value modified in place: every later answer equals a fresh instance's"""
    b, i, j = digits(sel, R_SEQ)
    return _seq(b, (i, j))


def _seq(b, idx) -> bool:
    text = TEXTS[b]
    fresh = snapshot(parse(text))
    p = parse(text)
    ops = _ops(p)
    names = list(ops)
    assert len(names) == N_OPS, len(names)
    done = []
    for k in idx:
        try:
            r = ops[names[k]]()
        except Exception as e:
            return fail(f"{names[k]} raised {type(e).__name__}: {str(e)[:120]}")
        _mutate(r)
        done.append(names[k])
        # later answers of the very same call, and of everything else
        try:
            again = ops[names[k]]()
        except Exception as e:
            return fail(f"{names[k]} raised after mutation of its earlier result: {type(e).__name__}: {str(e)[:120]}")
        if SENTINEL in repr(again):
            return fail(f"after {done}: the answer of {names[k]} contains the caller's modification")
    got = snapshot(p)
    if got != fresh:
        diff = [(x[:2], y[:2]) for x, y in zip(got, fresh) if x != y][:2]
        return fail(f"after {done} (results modified in place) the answers differ from a fresh instance: {diff}; text {text!r}")
    return True


# ---- no shared state between a copied / conjugated table and its source; re-parsing -----------------------------------------
def _ids(t, acc):
    acc.add(id(t))
    if isinstance(t, Tree):
        acc.add(id(t.children))
        for c in t.children:
            _ids(c, acc)
    return acc


N_ALIAS = len(TEXTS) * 2
STMTS = list(BASES) + [EXTRA_BASE]


def _explicit_copies(stmts):
    """the same file with every 'CopyDecay NEW OLD' written out as an explicit Decay block of NEW with OLD's lines"""
    out = []
    for st in stmts:
        if st[0] == "CopyDecay":
            new, old = st[1], st[2]
            block, inside = [], False
            for t in stmts:
                if t[0] == "Decay" and t[1] == old:
                    inside = True
                    block.append(["Decay", new])
                elif inside:
                    block.append(t)
                    if t[0] == "Enddecay":
                        break
            out += block
        else:
            out.append(st)
    return out


def body_alias(sel: int) -> bool:
    b, twice = sel % len(TEXTS), sel // len(TEXTS)
    text = TEXTS[b]
    p = parse(text)
    first = snapshot(p)
    if twice:
        with warnings.catch_warnings():
            warnings.simplefilter("ignore")
            p.parse()
        if snapshot(p) != first:
            return fail(f"parsing the same text again on the same instance changes the answers; text {text!r}")
    trees = list(p._parsed_decays)
    seen = {}
    for t in trees:
        mine = _ids(t, set())
        for other, ids in seen.items():
            if mine & ids:
                return fail(f"decay tables {t.children[0].children[0].value!r} and {other!r} share tree / token objects")
        seen[t.children[0].children[0].value] = mine
    # the alias definitions kept in the parsed file are not shared with the tables either
    file_ids = set()
    for t in p._parsed_dec_file.find_data("model_alias"):
        _ids(t, file_ids)
    for name, ids in seen.items():
        if ids & file_ids:
            return fail(f"decay table {name!r} shares objects with a ModelAlias definition")
    # CopyDecay NEW OLD: equal in everything but the mother
    # CopyDecay means the same as writing the block out: every table (also the conjugated ones made from copies) agrees
    if any(st[0] == "CopyDecay" for st in STMTS[b]):
        q = parse(render(_explicit_copies(STMTS[b]), 0))
        tp = {m: details(p, m) for m in p.list_decay_mother_names()}
        tq = {m: details(q, m) for m in q.list_decay_mother_names()}
        if tp != tq or sorted(p.list_decay_mother_names()) != sorted(q.list_decay_mother_names()):
            diff = [(m, tp.get(m), tq.get(m)) for m in sorted(set(tp) | set(tq)) if tp.get(m) != tq.get(m)][:2]
            return fail(f"CopyDecay differs from the written-out block: {diff}")
    cc = p.dict_charge_conjugates()
    for new, old in p.dict_decays2copy().items():
        names = p.list_decay_mother_names()
        if old in names:
            if names.count(new) != 1 or details(p, new) != details(p, old):
                return fail(f"CopyDecay {new} {old}: tables differ")
            # ... and the copy is usable as the source of a CDecay
            for x in p.list_charge_conjugate_decays():
                if cc.get(x) == new or cc.get(new) == x:
                    if names.count(x) != 1:
                        return fail(f"CDecay {x}: its source {new} is a CopyDecay of {old}, but {x} has no table (mothers {names})")
                    dx, dn = details(p, x), details(p, new)
                    if [(d["bf"], d["model"], d["model_params"], len(d["fs"])) for d in dx] != \
                            [(d["bf"], d["model"], d["model_params"], len(d["fs"])) for d in dn]:
                        return fail(f"CDecay {x} from copied table {new}: lines differ")
    return True


# ---- in-place modification with a symbolic value: whatever is written into a returned structure never reaches the parser --------------
N_PURE = len(TEXTS) * N_OPS


def _write(r, v):
    if isinstance(r, dict):
        for k in list(r):
            if isinstance(r[k], (dict, list)):
                _write(r[k], v)
            else:
                r[k] = v
        r["new"] = v
    elif isinstance(r, list):
        for i in range(len(r)):
            if isinstance(r[i], (dict, list)):
                _write(r[i], v)
            else:
                r[i] = v
        r.append(v)


def _holds(x, v):
    if x is v:
        return True
    if isinstance(x, dict):
        return any(_holds(k, v) or _holds(y, v) for k, y in x.items())
    if isinstance(x, (list, tuple, set)):
        return any(_holds(y, v) for y in x)
    return False


def body_pure(sel: int, v: int) -> bool:
    from crosshair import NoTracing
    b, i = sel % len(TEXTS), sel // len(TEXTS)
    text = TEXTS[b]
    with NoTracing():
        fresh = snapshot(parse(text))
    p = parse(text)
    ops = _ops(p)
    name = list(ops)[i]
    r = ops[name]()
    _write(r, v)
    again = ops[name]()
    if _holds(again, v):
        return fail(f"the value written into the result of {name} comes back from the next call")
    for other in ("build_decay_chains(first)", "details(last)", "dict_definitions", "list_decay_mother_names"):
        if _holds(ops[other](), v):
            return fail(f"the value written into the result of {name} comes back from {other}")
    with NoTracing():
        got = snapshot(p)
    if got != fresh:
        return fail(f"after {name} with its result overwritten the answers differ from a fresh instance")
    return True
