"""C05 - Define'd parameters and ModelAlias'd models mean exactly their expansion (Engine A bodies)."""
from __future__ import annotations

import copy

from lark import Token, Tree

from decaylanguage.dec.dec import DecayModelAliasReplacement, DecayModelParamValueReplacement, get_model_name, get_model_parameters

from .decutil import digits, fail, parse, prod, tables

# ---- textual family --------------------------------------------------------------------------------------------
DEF_VARIANTS = [
    [("dm", "0.507e12")],
    [("dm", "0.507e12"), ("beta", "-0.3")],
    [("dm", "0.1"), ("beta", "+2"), ("dm", "0.507e12")],                 # redefinition: the last one wins
    [("dm", "1e3"), ("beta", "-0.3"), ("dm", "7"), ("dm", "-.25")],
    [],
]
ALIAS_VARIANTS = [
    [],
    [("MA", "VSS_BMIX", ["dm"])],
    [("MA", "SSD_CP", ["dm", "-beta", "1.0", "word", "-dm", "-undefinedx"])],
    [("MA", "PHSP", []), ("MB", "HELAMP", ["1.0", "beta"]), ("MA", "VSS_BMIX", ["-dm", "dm"])],   # alias redefined: last wins
]
# per block: list of lines; each line = (bf, daughters, model spec) with model spec one of
#   ("alias", name) | ("model", name, params)
USE_PATTERNS = [
    [[("alias", "MA")]],
    [[("alias", "MA"), ("alias", "MA")]],
    [[("alias", "MA")], [("alias", "MA")]],
    [[("model", "VSS_BMIX", ["dm"]), ("alias", "MA"), ("model", "HQET2", ["-dm", "beta", "x1", "2.5"])], [("alias", "MA")],
     [("model", "PHSP", []), ("alias", "MA")]],
    [[("model", "SVS_CP", ["beta", "dm", "-beta", "-dm", "dmx", "-betax"])], [("model", "SVS_CP", ["dm"])]],
    [[], [("alias", "MA"), ("alias", "MB")], [("alias", "MB")]],
    [[("model", "LbAmpGen", ["DtoKpipipi_v1", "inf", "-nan", "dm", "Infinity"]), ("alias", "MA")]],
]
MOTHERS = ["B0", "D+", "K*0"]
# spelling of the two Define'd names: plain words, or legitimate names with inner hyphens / slashes (C05-m11: only a *leading* minus negates)
NAME_MAPS = [{"dm": "dm", "beta": "beta"}, {"dm": "dm-Bs", "beta": "q/p_B-mix"}]
R_EXPAND = [len(DEF_VARIANTS), 4, len(ALIAS_VARIANTS), 3, len(USE_PATTERNS), 3, len(NAME_MAPS)]
N_EXPAND = prod(R_EXPAND)


def _neg(lit):
    return lit[1:] if lit[0] == "-" else ("-" + lit[1:] if lit[0] == "+" else "-" + lit)


def _subst(params, final_defs):
    out = []
    for p in params:
        if p in final_defs:
            out.append(final_defs[p])
        elif p.startswith("-") and p[1:] in final_defs:
            out.append(_neg(final_defs[p[1:]]))
        else:
            out.append(p)
    return out


def _place(blocks_txt, stmts_with_pos):
    """stmts_with_pos: [(slot, text)] with slot in 0..len(blocks); statements of one slot keep their relative order"""
    out = []
    for slot in range(len(blocks_txt) + 1):
        out += [t for s, t in stmts_with_pos if s == slot]
        if slot < len(blocks_txt):
            out.append(blocks_txt[slot])
    return "\n".join(out) + "\n"


def body_expand(sel: int) -> bool:
    dv, dplace, av, aplace, up, extra, nm = digits(sel, R_EXPAND)
    nmap = NAME_MAPS[nm]

    def ren(w):
        return nmap.get(w, w) if w[:1] != "-" else "-" + nmap.get(w[1:], w[1:])
    defs = [(ren(n), v) for n, v in DEF_VARIANTS[dv]]
    aliases = [(a, m, [ren(x) for x in ps]) for a, m, ps in ALIAS_VARIANTS[av]]
    uses = [[(sp if sp[0] == "alias" else (sp[0], sp[1], [ren(x) for x in sp[2]])) for sp in blk] for blk in USE_PATTERNS[up]]
    alias_names = {a for a, _, _ in aliases}
    used_aliases = {m[1] for blk in uses for m in blk if m[0] == "alias"}
    if not used_aliases <= alias_names:
        return True                                   # this combination uses an alias that is not defined: outside the family
    nb = len(uses)
    final_defs = {}
    for n, v in defs:
        final_defs[n] = v
    final_alias = {}
    for a, m, ps in aliases:
        final_alias[a] = (m, ps)

    def line_txt(i, j, spec, expanded):
        bf = ["0.25", "0.5", "1.0"][(i + j) % 3]
        ds = ["pi+", "pi-"] if j % 2 == 0 else ["K+", "K-", "pi0"]
        if spec[0] == "alias":
            if expanded:
                m, ps = final_alias[spec[1]]
                ps = _subst(ps, final_defs)
            else:
                m, ps = spec[1], []
        else:
            m, ps = spec[1], (_subst(spec[2], final_defs) if expanded else spec[2])
        return " ".join([bf] + ds + [m] + ps) + ";"

    def block_txt(i, expanded):
        return "\n".join([f"Decay {MOTHERS[i]}"] + [line_txt(i, j, sp, expanded) for j, sp in enumerate(uses[i])] + ["Enddecay"])

    def slot(k, n, place):
        # 0: all before the first block; 1: all after the last; 2: spread over the boundaries in order; 3: between block 0 and 1
        return {0: 0, 1: nb, 2: min(nb, (k * (nb + 1)) // max(n, 1)), 3: min(1, nb)}[place]

    stm = [(slot(k, len(defs), dplace), f"Define {n} {v}") for k, (n, v) in enumerate(defs)]
    stm += [(slot(k, len(aliases), aplace), f"ModelAlias {a} {m} {' '.join(ps)};".replace("  ", " ")) for k, (a, m, ps) in enumerate(aliases)]
    tail = []
    if extra >= 1:
        tail.append("CopyDecay MyCopy " + MOTHERS[0])
    if extra == 2:
        tail += ["Alias MyB0 B0", "Alias MyAntiB0 anti-B0", "ChargeConj MyCopy MyAntiCopy", "CDecay MyAntiCopy", "CDecay anti-B0"]
    text = _place([block_txt(i, False) for i in range(nb)], stm) + "\n".join(tail) + "\n"
    plain = "\n".join(block_txt(i, True) for i in range(nb)) + "\n" + "\n".join(tail) + "\n"
    try:
        p = parse(text)
    except Exception as e:
        return fail(f"{type(e).__name__}: {str(e)[:200]} for text {text!r}")
    q = parse(plain)
    tp, tq = tables(p), tables(q)
    if tp != tq:
        diff = [(m, tp.get(m), tq.get(m)) for m in set(tp) | set(tq) if tp.get(m) != tq.get(m)][:1]
        return fail(f"text with Define/ModelAlias and its expansion differ: {diff}; text {text!r}; expansion {plain!r}")
    exp_defs = {n: float(v) for n, v in final_defs.items()}
    if p.dict_definitions() != exp_defs:
        return fail(f"dict_definitions {p.dict_definitions()} != {exp_defs} for {text!r}")
    exp_al = {a: [m] + list(ps) for a, (m, ps) in final_alias.items()}
    if p.dict_model_aliases() != exp_al:
        return fail(f"dict_model_aliases {p.dict_model_aliases()} != {exp_al} for {text!r}")
    return True


# ---- visitor / transformer on hand-built trees, Define values symbolic ---------------------------------------------------
OPTION_PATTERNS = [
    ["dm"], ["-dm"], ["dm", "-dm", "beta"], ["-beta", "1.5", "dm"], ["other", "-other", "dm"], ["2.5e3", "-0.5"], [],
    ["dm", "dm", "-beta", "beta", "-dmx", "3"],
    ["inf", "nan", "-inf", "Infinity", "dm", "e5x"],          # words float() would accept are still words
]
N_VISITOR = len(OPTION_PATTERNS) * 3


def _opts(pattern):
    ch = []
    for w in pattern:
        if w[0].isdigit() or (w[0] in "+-" and w[1:2].isdigit()):
            ch.append(Tree("value", [Token("SIGNED_NUMBER", w)]))
        else:
            ch.append(Token("LABEL", w))
    return Tree("model_options", ch)


def body_visitor(sel: int, v: float, w: float) -> bool:
    """DecayModelAliasReplacement + DecayModelParamValueReplacement on hand-built trees; the Define values v, w are symbolic"""
    pat = OPTION_PATTERNS[sel % len(OPTION_PATTERNS)]
    mode = sel // len(OPTION_PATTERNS)          # 0: direct use in one line; 1: through an alias used by two lines; 2: alias + direct
    defs = {"dm": v, "beta": w}
    alias_defs = {"MA": [Token("MODEL_NAME", "VSS_BMIX")] + ([_opts(pat)] if pat else [])}

    def line(model_children):
        return Tree("decayline", [Tree("value", [Token("SIGNED_NUMBER", "0.5")]), Tree("particle", [Token("LABEL", "pi+")]),
                                  Tree("model", model_children)])
    direct = [Token("MODEL_NAME", "VSS_BMIX")] + ([_opts(pat)] if pat else [])
    via = [Tree("model_label", [Token("LABEL", "MA")])]
    lines = {0: [line(direct)], 1: [line(via), line(copy.deepcopy(via))], 2: [line(copy.deepcopy(via)), line(direct)]}[mode]
    tree = Tree("decay", [Tree("particle", [Token("LABEL", "B0")])] + lines)
    tree = DecayModelAliasReplacement(model_alias_defs=alias_defs).transform(tree)
    DecayModelParamValueReplacement(define_defs=defs).visit(tree)
    exp = []
    for x in pat:
        if x == "dm":
            exp.append(v)
        elif x == "-dm":
            exp.append(-v)
        elif x == "beta":
            exp.append(w)
        elif x == "-beta":
            exp.append(-w)
        elif x[0].isdigit() or (x[0] in "+-" and x[1:2].isdigit()):
            exp.append(float(x))
        else:
            exp.append(x)
    for ln in tree.find_data("decayline"):
        if get_model_name(ln) != "VSS_BMIX":
            return fail(f"model name {get_model_name(ln)!r}")
        got = get_model_parameters(ln)
        if not pat:
            if got != "":
                return fail(f"absent parameter list reported as {got!r}")
            continue
        if len(got) != len(exp):
            return fail(f"parameters {got!r} vs {exp!r}")
        for g, e in zip(got, exp):
            if isinstance(e, str):
                if not (isinstance(g, str) and g == e):
                    return fail(f"word {e!r} became {g!r}")
            elif not (g == e):
                return fail(f"value {g!r} != {e!r} in {got!r}")
    # the alias definition itself must not have been modified by the replacement in the lines
    if pat and [str(getattr(c, "value", c)) if isinstance(c, Token) else c.children[0].value for c in alias_defs["MA"][1].children] != pat:
        return fail("the ModelAlias definition was modified in place")
    return True
