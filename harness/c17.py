"""C17 - AmpGen option files are read into the amplitudes and tables they state (Engine A bodies)."""
from __future__ import annotations

import cmath
from itertools import product

from decaylanguage.modeling.amplitudechain import AmplitudeChain

from .decutil import digits, fail, prod

# particle_from_string_name costs about one second per call (the particle package renders all its names for every findall):
# the look-up of a given AmpGen-style name is memoised per process - same function, same results, listed as a stub in the evidence
import functools

import decaylanguage.modeling.amplitudechain as _ac

if not hasattr(_ac.particle_from_string_name, "cache_info"):
    _ac.particle_from_string_name = functools.lru_cache(maxsize=None)(_ac.particle_from_string_name)


# ---- expand_lines on hand-built chains (no third-party code: stand-in particles) ------------------------------------------
class P:
    def __init__(self, name):
        self.name = name

    def __eq__(self, o):
        return isinstance(o, P) and o.name == self.name

    def __hash__(self):
        return hash(self.name)

    def __str__(self):
        return self.name

    __repr__ = __str__


def mk(t):
    """t = name | (name, tag, t1, t2) -> AmplitudeChain"""
    if isinstance(t, str):
        return AmplitudeChain(particle=P(t))
    name, tag, a, b = t
    spin, ls = (tag or (None, None))
    return AmplitudeChain(particle=P(name), daughters=[mk(a), mk(b)], spinfactor=spin, lineshape=ls)


def show(t):
    if isinstance(t, str):
        return t
    name, tag, a, b = t
    spin, ls = (tag or (None, None))
    s = name
    if ls and spin:
        s += f"[{spin};{ls}]"
    elif ls:
        s += f"[{ls}]"
    elif spin:
        s += f"[{spin}]"
    return s + "{" + show(a) + "," + show(b) + "}"


def oracle_expand(t, lines):
    """every undecayed name is replaced by every line given for that name: full cartesian expansion, in file order"""
    if not isinstance(t, str):
        name, tag, a, b = t
        return [(name, tag, x, y) for x, y in product(oracle_expand(a, lines), oracle_expand(b, lines))]
    alts = [ln for ln in lines if ln[0] == t]
    if alts:
        return [e for ln in alts for e in oracle_expand(ln, lines)]
    return [t]


# partial lines available for the names R, S, T (alternative sets)
R_ALTS = [[], [("R", None, "x", "y")], [("R", ("P", None), "x", "y"), ("R", (None, "GSpline.EFF"), "S", "z")],
          [("R", None, "x", "y"), ("R", ("D", "kMatrix.pole.0"), "z", "S"), ("R", None, "S", "S")]]
S_ALTS = [[], [("S", None, "u", "v")], [("S", None, "u", "v"), ("S", ("S", None), "T", "w")], [("S", None, "u", "v"), ("S", None, "v", "u"), ("S", None, "T", "T")]]
T_ALTS = [[], [("T", None, "p", "q"), ("T", ("P", "BW"), "q", "p")]]
MOTHERS = [("M", None, "R", "k"), ("M", ("D", None), "R", "R"), ("M", None, ("A", (None, "FOCUS.Kpi"), "R", "S"), "S"),
           ("M", None, "a", ("B", None, "b", "c")), ("M", None, "S", ("A", None, "R", ("B", None, "T", "R"))),
           # a name both bare and written with its own decay inside one tree, in both orders (C17-m11)
           ("M", None, "R", ("R", ("P", None), "g", "h")), ("M", None, ("A", None, ("S", (None, "BW"), "m", "n"), "k"), ("B", None, "S", "R"))]
R_EXP = [len(R_ALTS), len(S_ALTS), len(T_ALTS), len(MOTHERS), 2]
N_EXP = prod(R_EXP)


def body_expand(sel: int) -> bool:
    ri, si, ti, mi, order = digits(sel, R_EXP)
    partial = R_ALTS[ri] + S_ALTS[si] + T_ALTS[ti]
    mothers = [MOTHERS[mi], MOTHERS[(mi + 1) % len(MOTHERS)]]
    alltrees = (mothers + partial) if order == 0 else (partial[::1] + mothers)
    exp = oracle_expand(mothers[0], alltrees)
    if len(exp) > 3000:
        return True
    line_arr = [mk(t) for t in alltrees]
    AmplitudeChain.final_particles = set()
    target = line_arr[alltrees.index(mothers[0])]
    got = target.expand_lines(line_arr)
    gs, es = [str(g) for g in got], [show(e) for e in exp]
    if gs != es:
        missing = [e for e in es if e not in gs][:2]
        extra = [g for g in gs if g not in es][:2]
        return fail(f"expansion of {show(mothers[0])} with lines {[show(t) for t in alltrees]}: {len(gs)} amplitudes, expected {len(es)}; "
                    f"missing {missing}, unexpected {extra}, order equal: {sorted(gs) == sorted(es)}")
    # the lines given are not modified by the expansion
    if [str(x) for x in line_arr] != [show(t) for t in alltrees]:
        return fail("expand_lines modified the lines it was given")
    return True


# ---- the real reader on generated option texts ---------------------------------------------------------------------------------
PDG = {"K*(892)bar0": "K*(892)~0", "K(1)(1270)bar-": "K(1)(1270)-", "K(0)*(1430)bar0": "K(0)*(1430)~0", "PiPi00": "PiPi0", "KPi00": "KPi00",
       "K(1460)bar-": "K(1460)-"}
KSTAR = ("K*(892)bar0", None, "K-", "pi+")
RHO = ("rho(770)0", None, "pi+", "pi-")
K1_ALTS = [("K(1)(1270)bar-", None, RHO, "K-"), ("K(1)(1270)bar-", ("D", None), KSTAR, "pi-"),
           ("K(1)(1270)bar-", None, ("K(0)*(1430)bar0", (None, "GSpline.EFF"), "K-", "pi+"), "pi-")]
A1_ALTS = [("a(1)(1260)+", None, RHO, "pi+"), ("a(1)(1260)+", ("D", "GSpline.EFF"), RHO, "pi+")]
MOTHER_SETS = [
    [("D0", None, KSTAR, RHO)],
    [("D0", ("D", None), KSTAR, RHO), ("D0", None, "K(1)(1270)bar-", "pi+")],
    [("D0", None, "a(1)(1260)+", "K-"), ("D0", None, ("PiPi00", (None, "kMatrix.pole.1"), "pi+", "pi-"), ("KPi00", (None, "FOCUS.Kpi"), "K-", "pi+")),
     ("D0", ("P", None), KSTAR, RHO)],
    [("D0", None, "K(1)(1270)bar-", "pi+"), ("D0", None, "a(1)(1260)+", "K-")],
    # one name used bare (expanded from its own lines) and, later or earlier in the text, written with its own decay (C17-m11)
    [("D0", None, "a(1)(1260)+", "K-"), ("D0", ("D", None), ("a(1)(1260)+", ("P", None), RHO, "pi+"), "K-"),
     ("D0", None, ("K(1)(1270)bar-", (None, "GSpline.EFF"), RHO, "K-"), "pi+"), ("D0", None, "K(1)(1270)bar-", "pi+")],
]
COUPLINGS = [("2", "1", "0", "2", "0", "0"), ("0", "0.5", "0.1", "0", "1.5", "0.2"), ("0", "-0.3", "0.0", "2", "0.7", "0.0"),
             ("2", "2.5e-1", "1e-3", "0", "-3.14159", ".01")]
R_READ = [len(MOTHER_SETS), 4, 3, 3, 2, 3, 2]
N_READ = prod(R_READ)


def pdgshow(t):
    s = show(t)
    for a, b in PDG.items():
        s = s.replace(a, b)
    return s


def body_read(sel: int) -> bool:
    ms, nk1, na1, opt, layout, tabs, history = digits(sel, R_READ)
    mothers = MOTHER_SETS[ms]
    k1 = K1_ALTS[:nk1]
    a1 = A1_ALTS[:na1]
    out = []
    if layout:
        out += ["# options generated by the harness", ""]
    opt_line = f"FastCoherentSum::UseCartesian {opt - 1}" if opt else None
    opt_pos = (sel // 7) % 3                       # the option may stand before, between or after the decay lines
    if opt_line and opt_pos == 0:
        out.append(opt_line)
    out.append("EventType D0 K- pi+ pi+ pi-")
    params, consts = [], []
    if tabs >= 1:
        params = [("D0_radius", "2", "0.0037559", "0"), ("a(1)(1260)+_mass", "0", "1195.05", "1.04"), ("K(1)(1270)bar-_width", "0", "90", "20")]
        consts = [("a(1)(1260)+::Spline::Min", "0.18412"), ("a(1)(1260)+::Spline::N", "2")]
    if tabs == 2:
        params.append(("f_scatt0", "2", "0.23399", "0"))
        consts.append(("K(0)*(1430)bar0::Spline::Max", "-1.5e+1"))
    lines_txt, allt, coup = [], [], {}
    for i, t in enumerate(mothers + k1 + a1):
        c = COUPLINGS[(i + sel) % len(COUPLINGS)]
        coup[i] = c
        allt.append(t)
        lines_txt.append(show(t) + ("   " if layout else " ") + " ".join(c) + ("   # line %d" % i if layout and i % 2 else ""))
    body = lines_txt[:1] + [" ".join(p) for p in params[:2]] + ([opt_line] if opt_line and opt_pos == 1 else []) + lines_txt[1:] + \
        [" ".join(p) for p in params[2:]] + [" ".join(c) for c in consts] + ([opt_line] if opt_line and opt_pos == 2 else [])
    if layout:
        body = [x for b in body for x in (b, "")]
    text = "\n".join(out + body) + "\n"
    AmplitudeChain.cartesian = False
    AmplitudeChain.all_particles = set()
    AmplitudeChain.final_particles = set()
    try:
        if history:
            # an earlier read in the same process of a text in which the resonances have no decay lines of their own: what a text
            # states does not depend on it (the class-level sets are NOT reset in between)
            AmplitudeChain.read_ampgen(text="EventType D0 K- pi+ pi+ pi-\n" + "\n".join(lines_txt[:len(mothers)]) + "\n")
        lines, pars, cons, states = AmplitudeChain.read_ampgen(text=text)
    except Exception as e:
        AmplitudeChain.cartesian = False
        return fail(f"read_ampgen raised {type(e).__name__}: {str(e)[:200]} for {text!r}")
    AmplitudeChain.cartesian = False      # the switch is class-level state (C20): reset so that selectors do not influence each other
    if [s.name for s in states] != ["D0", "K-", "pi+", "pi+", "pi-"]:
        return fail(f"event type {[s.name for s in states]}")
    exp = []
    for i, t in enumerate(mothers):
        for e in oracle_expand(t, allt):
            exp.append((pdgshow(e), coup[i], t))
    got = [str(ln) for ln in lines]
    if got != [e[0] for e in exp]:
        return fail(f"amplitudes {got} expected {[e[0] for e in exp]}; text {text!r}")
    for ln, (s, c, t) in zip(lines, exp):
        a, b = float(c[1]), float(c[4])
        want = complex(a, b) if opt == 2 else cmath.rect(a, b)
        if abs(ln.amp - want) > 1e-12 * max(1.0, abs(want)):
            return fail(f"coupling of {s}: {ln.amp} expected {want} (columns {c}, cartesian={opt == 2})")
        tag = t[1] or (None, None)
        if ln.spinfactor != tag[0] or ln.lineshape != tag[1]:
            return fail(f"tags of {s}: spin {ln.spinfactor}, lineshape {ln.lineshape}; written {tag}")
        if ln.fix != (not (int(c[0]) > 0 and int(c[3]) > 0)):
            return fail(f"fix flag of {s}: {ln.fix} for columns {c[0]}, {c[3]}")
    exp_pars = [(n, int(f) > 0, float(v), float(e)) for n, f, v, e in params]
    got_pars = [(n, bool(r["fix"]), float(r["value"]), float(r["error"])) for n, r in pars.iterrows()]
    if got_pars != exp_pars:
        return fail(f"parameter table {got_pars} expected {exp_pars}")
    exp_cons = [(n, float(v)) for n, v in consts]
    got_cons = [(n, float(r["value"])) for n, r in cons.iterrows()]
    if got_cons != exp_cons:
        return fail(f"constants table {got_cons} expected {exp_cons}")
    return True
