"""C16 - printed decay-mode tables show every mode once, correctly ordered and scaled (Engine A bodies)."""
from __future__ import annotations

import contextlib
import io

from .decutil import details, digits, fail, parse, prod

# branching fractions are binary fractions (k/16, k*2^-36): sums, ratios by powers of two and products are exact in floating point,
# so the expected 7-significant-digit strings do not depend on the order of arithmetic
BF_PATTERNS = [
    ["0.5", "0.25", "0.125", "0.0625", "0.03125"],
    ["0.25", "0.5", "0.25", "0.5", "0.25"],                     # ties, not in sorted order
    ["0.125", "0.125", "0.125", "0.125", "0.125"],              # all equal: file order must be kept
    ["0.0625", "0.25", "0.5", "0.75", "1.0"],                   # ascending in the file
    ["1.4551915228366852e-11", "0.5", "2.9103830456733704e-11", "1.4551915228366852e-11", "0.25"],   # 2^-36 .. : spans 1e-11..1
    ["0.3125", "0.1875", "0.3125", "0.0625", "0.1875"],
    ["1", "1.", ".5", "5E-1", "+0.25"],                          # literal forms, ties between different spellings
]
SCALES = [None, 0.25, 0.5, 1.0, 0, 0.0, 1.5, -0.5, 1]
R_PRINT = [5, len(BF_PATTERNS), 16, len(SCALES), 2]
N_PRINT = prod(R_PRINT)
LINES = [(["K-", "pi+"], True, "PHSP", ""), (["K_S0", "pi0", "pi0"], False, "D_DALITZ", ""), (["rho0", "gamma"], True, "HELAMP", "1.0 0.0 -1.0 0"),
         ([], False, "PHSP", ""), (["e+", "e-", "a_b", "Xi(c).b"], False, "SVS_CP", "beta dm 1.0")]


def _g7(x):
    return format(x, ".7g")


GRID = ["0.125", "0.25", "0.375", "0.5"]
ALL_PATTERNS = [[GRID[(k // 4 ** j) % 4] for j in range(4)] for k in range(4 ** 4)]      # every weak ordering of four lines
R_ALL = [16, len(SCALES), 2]
N_ALL = prod(R_ALL)


def body_print_all(sel: int) -> bool:
    """thorough tier: selector = options x scale x naming; all 256 value patterns of four lines (every weak ordering, all ties) inside the path"""
    opts, si, pdg = digits(sel, R_ALL)
    for pat in ALL_PATTERNS:
        if not _print_case(4, pat, opts, si, pdg):
            return False
    return True


def body_print(sel: int) -> bool:
    n1, bp, opts, si, pdg = digits(sel, R_PRINT)
    return _print_case(n1 + 1, BF_PATTERNS[bp], opts, si, pdg)


def _print_case(n, pattern, opts, si, pdg) -> bool:
    print_model, photos_kw, ascending, normalize = [(opts >> i) & 1 == 1 for i in range(4)]
    scale = SCALES[si]
    bfs = pattern[:n]
    mother, arg = ("K_S0", "K(S)0") if pdg else ("MyMother", "MyMother")
    text = f"Decay {mother}\n" + "".join(
        " ".join([bfs[i]] + LINES[i][0] + (["PHOTOS"] if LINES[i][1] else []) + [LINES[i][2]] + ([LINES[i][3]] if LINES[i][3] else [])) + ";\n"
        for i in range(n)) + "Enddecay\n"
    p = parse(text)
    before = details(p, mother)
    buf = io.StringIO()
    refused = None
    try:
        with contextlib.redirect_stdout(buf):
            p.print_decay_modes(arg, pdg_name=bool(pdg), print_model=print_model, display_photos_keyword=photos_kw, ascending=ascending,
                                normalize=normalize, scale=scale)
    except RuntimeError as e:
        refused = e
    must_refuse = scale is not None and (normalize or not (0.0 < scale <= 1.0))
    if must_refuse:
        if refused is None:
            return fail(f"options normalize={normalize}, scale={scale!r} must be refused but printed {buf.getvalue()!r}")
        if details(p, mother) != before:
            return fail("stored values changed by a refused call")
        return True
    if refused is not None:
        return fail(f"options normalize={normalize}, scale={scale!r} refused: {refused}")
    vals = [float(b) for b in bfs]
    order = sorted(range(n), key=lambda i: vals[i] if ascending else -vals[i])         # stable: file order among equal values
    if normalize:
        tot = sum(vals)
        shown = [v / tot for v in vals]
    elif scale is not None:
        f = scale / max(vals)
        shown = [v * f for v in vals]
    else:
        shown = vals
    rows = buf.getvalue().splitlines()
    if len(rows) != n:
        return fail(f"{len(rows)} rows printed for {n} decay lines: {rows}")
    for r, i in zip(rows, order):
        ds, ph, mo, pa = LINES[i]
        if not r.endswith(";"):
            return fail(f"row {r!r} does not end with ';'")
        toks = r[:-1].split()
        exp = [_g7(shown[i])] + ds
        if print_model:
            exp += (["PHOTOS"] if (ph and photos_kw) else []) + [mo] + [str(float(x)) if x[0] in "0123456789-+." else x for x in pa.split()]
        if toks != exp:
            return fail(f"row {r!r}: expected fields {exp} (options print_model={print_model}, photos={photos_kw}, ascending={ascending}, "
                        f"normalize={normalize}, scale={scale!r}); all rows {rows}")
    if normalize:
        # the displayed values sum to 1 (to the displayed precision)
        if abs(sum(float(r[:-1].split()[0]) for r in rows) - 1.0) > n * 5e-7:
            return fail(f"normalised values do not sum to 1: {rows}")
    if scale is not None and float(_g7(max(float(r[:-1].split()[0]) for r in rows))) != float(_g7(scale)):
        return fail(f"largest displayed value is not the requested scale {scale}: {rows}")
    if details(p, mother) != before:
        return fail("printing altered the stored values")
    return True


