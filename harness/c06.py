"""C06 - every supported model name is recognised as itself; unknown models are rejected (Engine A bodies)."""
from __future__ import annotations

import re

from decaylanguage.dec.enums import known_decay_models
from lark.exceptions import LarkError

from .decutil import details, digits, fail, parse, prod

MODELS = tuple(known_decay_models)
# adversarial registered names: a published name cut at a non-word character (CB3PI < CB3PI-MPP), extensions by _X, -X and a
# digit, a one-letter name, a name with a dash inside
FAMILY = ("CB3PI", "PHSP_X", "MY-MODEL", "BSTD_2", "X", "PHSP-X", "SVS-2", "ISGW22", "D_DALITZ_NEW", "TAUOLA-1")
ALL = MODELS + FAMILY
R_ACCEPT = [len(ALL), 2, 3, 3]
N_ACCEPT = prod(R_ACCEPT)


def body_accept(sel: int) -> bool:
    """name x PHOTOS x parameters (none / numbers / a label extending a model name) x (family registered or not)"""
    ni, ph, pv, reg = digits(sel, R_ACCEPT)
    name = ALL[ni]
    if name in FAMILY and reg == 0:
        reg = 1
    params = ["", " 1.0 -0.5", " PHSPx SVS_2 HELAMP3"][pv]
    pexp = ["", [1.0, -0.5], ["PHSPx", "SVS_2", "HELAMP3"]][pv]
    text = f"Decay B0sig\n0.5 PHSPa K_PHSP {'PHOTOS ' if ph else ''}{name}{params};\n0.5 pi+ pi- {name} ;\nEnddecay\n"
    try:
        p = parse(text, extra_models=FAMILY if reg else (), split_registration=(reg == 2))
    except Exception as e:
        return fail(f"model {name!r} not accepted (registered={bool(reg)}): {type(e).__name__}: {str(e)[:120]}")
    got = details(p, "B0sig")
    exp = [{"bf": 0.5, "fs": ["PHSPa", "K_PHSP"], "model": ("PHOTOS " if ph else "") + name, "model_params": pexp},
           {"bf": 0.5, "fs": ["pi+", "pi-"], "model": name, "model_params": ""}]
    if got != exp:
        return fail(f"model {name!r} (registered={bool(reg)}) reported as {got}, expected {exp}")
    return True


EDITS = ["drop-last", "append-X", "append-x", "append-9", "append-_", "lower", "prefix-X", "swapcase-first", "double-last",
         "registered-on-another-instance"]
R_REJECT = [len(MODELS), len(EDITS), 2, 2]
N_REJECT = prod(R_REJECT)


def _edit(name, e):
    return {"drop-last": name[:-1], "append-X": name + "X", "append-x": name + "x", "append-9": name + "9", "append-_": name + "_",
            "lower": name.lower(), "prefix-X": "X" + name, "swapcase-first": name[0].swapcase() + name[1:],
            "double-last": name + name[-1], "registered-on-another-instance": name + "_Q"}[e]


def body_reject(sel: int) -> bool:
    """a near-miss of a published name in model position must make parsing fail - unless a ModelAlias defines that word,
    in which case it means its expansion - and must never be accepted as some other model"""
    ni, ei, alias, params = digits(sel, R_REJECT)
    word = _edit(MODELS[ni], EDITS[ei])
    if not word or word in MODELS or word == "PHOTOS":
        return True
    if re.match(r"[+-]?(\d|\.\d)", word):
        return True                       # numeric-literal prefix: lexical class F14a/b, outside this harness
    for m in MODELS:                      # F14d: model name directly followed by a non-word label character
        if word.startswith(m) and len(word) > len(m) and not re.match(r"\w", word[len(m)]):
            return True
    if EDITS[ei] == "registered-on-another-instance":
        # a name registered on one parser instance is not a model name for an independent instance
        other = parse(f"Decay B0sig\n1.0 pi+ pi- {word} 1.0;\nEnddecay\n", extra_models=(word,))
        if details(other, "B0sig")[0]["model"] != word:
            return fail(f"registered name {word!r} not reported verbatim")
    pre = f"ModelAlias {word} SVS;\n" if alias else ""
    text = pre + f"Decay B0sig\n1.0 pi+ pi- {word}{' 1.0 2.0' if params and not alias else ''};\nEnddecay\n"
    try:
        p = parse(text)
    except (ValueError, LarkError) as e:
        if alias:
            return fail(f"alias {word!r} defined but parsing failed: {type(e).__name__}: {str(e)[:100]}")
        return True
    got = details(p, "B0sig")
    if alias:
        exp = [{"bf": 1.0, "fs": ["pi+", "pi-"], "model": "SVS", "model_params": ""}]
        return got == exp or fail(f"alias {word!r} -> SVS reported as {got}")
    return fail(f"unknown model word {word!r} accepted: {got}")
