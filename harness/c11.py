"""C11 - class, dictionary and parser forms of a decay convert into each other losslessly (Engine A bodies)."""
from __future__ import annotations

from itertools import permutations

from decaylanguage.decay.decay import DaughtersDict, DecayChain, DecayMode

from .c12 import SHAPES
from .decutil import fail, parse

# ---- DecayMode <-> dict, symbolic bf and metadata ---------------------------------------------------------------------
FS_PATTERNS = [{}, {"K+": 1}, {"K+": 1, "K-": 2}, {"pi0": 3}, {"gamma": 2, "anti-nu_tau": 1, "K_1(1270)+": 1}, {"a": 1, "B": 1, "A": 1, "b": 3},
               {"pi+": 2, "pi-": 2, "pi0": 1, "Upsilon(4S)": 1}]
META_SHAPES = 5
N_MODE = len(FS_PATTERNS) * META_SHAPES


def body_mode(sel: int, bf: float, mi: int, ms: str) -> bool:
    fs = FS_PATTERNS[sel % len(FS_PATTERNS)]
    shape = sel // len(FS_PATTERNS)
    info = [{}, {"model": "PHSP"}, {"model": "HELAMP", "model_params": [mi, 1.5, ms], "study": ms, "year": mi},
            {"zfit": {"B0": ms, "n": [mi, mi]}, "model_params": [mi]},
            {"reviewed_by": None, "note": ms, "flags": {"checked": None, "n": mi}}][shape]      # None (JSON null) is a value like any other
    dm = DecayMode(bf, dict(fs), **info)
    d = dm.to_dict()
    exp_fs = sorted(n for n, c in fs.items() for _ in range(c))
    exp_meta = {"model": "", "model_params": ""}
    exp_meta.update(info)
    exp_d = {"bf": bf, "fs": exp_fs}
    exp_d.update(exp_meta)
    if d != exp_d or list(d)[:2] != ["bf", "fs"]:
        return fail(f"to_dict {d} expected {exp_d}")
    back = DecayMode.from_dict(d)
    if back.bf != bf or dict(back.daughters.items()) != fs or back.metadata != exp_meta:
        return fail(f"from_dict(to_dict()) = bf {back.bf}, daughters {dict(back.daughters.items())}, metadata {back.metadata}; "
                    f"expected {bf}, {fs}, {exp_meta}")
    if dict(dm.daughters.items()) != fs or dm.metadata != exp_meta:
        return fail("to_dict modified the mode")
    if back.to_dict() != d:
        return fail("second round trip differs")
    # from_dict must not keep references into the caller's dictionary
    import copy
    want = copy.deepcopy(exp_meta)
    d["fs"].append("x")
    if "model_params" in info:
        d["model_params"].append("y")
    if back.metadata != want or dict(back.daughters.items()) != fs:
        return fail("from_dict shares objects with its input dictionary")
    return True


# ---- DecayChain <-> dict: all tree shapes, symbolic branching fractions --------------------------------------------------------
NAMES = ["D*+", "D0", "K_S0", "pi0", "eta'"]
LEAVES = [["pi+"], ["K-", "pi+"], ["pi+", "pi-"], ["gamma", "gamma"], ["gamma", "rho0"]]
TREES = [(k, s) for k in (1, 2, 3, 4, 5) for s in (SHAPES[k] if k >= 2 else [()]) if all(len(ps) == 1 for ps in s)]
# shapes in which a decaying particle occurs more than once (two parents, or multiplicity 2): finding F4 for the from_dict half
REPEATS = [(k, s) for k in (2, 3, 4) for s in SHAPES[k]]
N_CHAIN = len(TREES) * 3 + len(REPEATS) * 2
F4_MESSAGE = "Input is not a single decay chain!"


def _make(k, shape, bfs, order, mult2):
    given = {}
    for i in range(k):
        d = {}
        for n in LEAVES[i]:
            d[n] = d.get(n, 0) + 1
        given[i] = d
    for i in range(1, k):
        for p in shape[i - 1]:
            given[p][NAMES[i]] = 2 if mult2 else 1
    decays = {}
    for i in order:
        extra = {"model": "VSS", "model_params": [1.0, "x"], "note": "top"} if i == 0 else ({"model": "PHSP"} if i % 2 else {})
        decays[NAMES[i]] = DecayMode(bfs[i], dict(given[i]), **extra)
    return given, DecayChain(NAMES[0], decays)


def _oracle_dict(given, bfs, k, i):
    extra = {"model": "VSS", "model_params": [1.0, "x"], "note": "top"} if i == 0 else ({"model": "PHSP"} if i % 2 else {})
    meta = {"model": "", "model_params": ""}
    meta.update(extra)
    names = sorted(n for n, c in given[i].items() for _ in range(c))
    fs = [_oracle_dict(given, bfs, k, NAMES.index(n)) if (n in NAMES[:k] and NAMES.index(n) > i) else n for n in names]
    d = {"bf": bfs[i], "fs": fs}
    d.update(meta)
    return {NAMES[i]: [d]}


def body_chain(sel: int, b0: int, b1: int, b2: int, b3: int, b4: int) -> bool:
    bfs = [b0, b1, b2, b3, b4]
    if sel < len(TREES) * 3:
        (k, shape), ov, repeated, mult2 = TREES[sel // 3], sel % 3, False, False
    else:
        r = sel - len(TREES) * 3
        (k, shape), mult2, ov, repeated = REPEATS[r // 2], r % 2 == 1, 1, True
        if all(len(ps) == 1 for ps in shape) and not mult2:
            return True                       # a plain tree: covered above
    order = {0: list(range(k)), 1: list(reversed(range(k))), 2: list(range(1, k)) + [0]}[ov]
    given, chain = _make(k, shape, bfs, order, mult2)
    d = chain.to_dict()
    exp = _oracle_dict(given, bfs, k, 0)
    if d != exp:
        return fail(f"to_dict {d} expected {exp} (shape {shape}, order {order})")
    try:
        back = DecayChain.from_dict(d)
    except RuntimeError as e:
        if repeated and F4_MESSAGE in str(e):
            return True                       # known finding F4 (probed separately); the to_dict half has been checked
        return fail(f"from_dict(to_dict()) raised {e!r} (shape {shape}, order {order})")
    if back.mother != NAMES[0] or set(back.decays) != {NAMES[i] for i in range(k)}:
        return fail(f"from_dict: mother {back.mother}, decays {list(back.decays)}")
    for i in range(k):
        o, n = chain.decays[NAMES[i]], back.decays[NAMES[i]]
        if n.bf != bfs[i] or dict(n.daughters.items()) != given[i] or n.metadata != o.metadata:
            return fail(f"sub-decay of {NAMES[i]} after the round trip: bf {n.bf}, {dict(n.daughters.items())}, {n.metadata}; "
                        f"original {bfs[i]}, {given[i]}, {o.metadata}")
    if back.to_dict() != d:
        return fail("to_dict after the round trip differs")
    return True


def probe_f4():
    """canonical input of finding F4: True while it still reproduces"""
    dc = DecayChain("D0", {"D0": DecayMode(0.5, "pi0 pi0"), "pi0": DecayMode(0.98, "gamma gamma")})
    try:
        return DecayChain.from_dict(dc.to_dict()).to_dict() != dc.to_dict()
    except RuntimeError as e:
        return F4_MESSAGE in str(e)


# ---- parser-produced single-line chains -----------------------------------------------------------------------------
PP = ["B0sig", "MyD*-", "K_1(1270)+", "f'_0", "anti-Xi_c0"]
N_PARSER = 3 ** 4 * 2


def _canon(d):
    """chain dictionary with the daughters of every mode sorted (strings before sub-chains, by name)"""
    (m, modes), = d.items()
    out = []
    for mode in modes:
        c = dict(mode)
        c["fs"] = sorted((x if isinstance(x, str) else _canon(x) for x in mode["fs"]), key=lambda x: (x if isinstance(x, str) else next(iter(x)), repr(x)))
        out.append(c)
    return {m: out}


def body_parser_chain(sel: int) -> bool:
    """single-line tables: DecayChain.from_dict(parser chain).to_dict() equals the parser's dictionary up to daughter order"""
    ph, sel = sel % 2, sel // 2
    digs = [(sel // 3 ** j) % 3 for j in range(4)]
    lines = {PP[0]: [PP[1], "pi+", PP[2]]}
    # particle i+1: 0 = stable, 1 = decays to the next two, 2 = decays to leaves only
    for i, dg in enumerate(digs):
        name = PP[i + 1]
        if dg == 1:
            nxt = [PP[j] for j in (i + 2, i + 3) if j < len(PP)]
            lines[name] = nxt + ["gamma"]
        elif dg == 2:
            lines[name] = ["K+", "K-", "pi0"][: 2 + i % 2]
    text = "".join(f"Decay {m}\n0.{i + 1} {' '.join(ds)} {'PHOTOS ' if ph else ''}{'HELAMP 1.0 0.5' if i % 2 else 'PHSP'};\nEnddecay\n"
                   for i, (m, ds) in enumerate(lines.items()))
    p = parse(text)
    x = p.build_decay_chains(PP[0])
    occurrences = {}

    def count(d):
        (m, modes), = d.items()
        occurrences[m] = occurrences.get(m, 0) + 1
        for y in modes[0]["fs"]:
            if not isinstance(y, str):
                count(y)
    count(x)
    try:
        back = DecayChain.from_dict(x).to_dict()
    except RuntimeError as e:
        if max(occurrences.values()) > 1 and F4_MESSAGE in str(e):
            return True
        return fail(f"from_dict of the parser chain raised {e!r}; text {text!r}")
    if _canon(back) != _canon(x):
        return fail(f"parser chain {x} -> classes -> {back}; text {text!r}")
    return True


# ---- final states from strings, lists, mappings, PDG ids ---------------------------------------------------------------
STATES = [["K+"], ["K+", "K-", "K-"], ["pi0", "pi0", "pi0", "pi0"], ["gamma", "anti-nu_tau", "K_1(1270)+", "gamma"],
          ["b", "a", "B", "A", "b"], ["pi+", "pi-", "pi+", "pi0", "pi-"], []]


def _evt():
    from particle.converters import EvtGenName2PDGIDBiMap
    return sorted((int(k), str(v)) for k, v in EvtGenName2PDGIDBiMap._from_map.items())


EVT = _evt()
N_CTOR = len(STATES) * 6 + len(EVT)


def body_ctor(sel: int) -> bool:
    if sel < len(STATES) * 6:
        st = STATES[sel % len(STATES)]
        pv = sel // len(STATES)
        perms = list(permutations(st))[:: max(1, len(list(permutations(st))) // 6)] if st else [()]
        lst = list(perms[pv % len(perms)])
        counts = {}
        for n in st:
            counts[n] = counts.get(n, 0) + 1
        a, b, c = DaughtersDict(" ".join(lst)), DaughtersDict(lst), DaughtersDict(dict(counts))
        # a string as read from a file: blanks, tabs or a line end around and between the names do not add or remove particles
        pad = [(" ", " ", " "), ("", "  ", "\n"), ("\t", "\t", ""), ("  ", " \t ", " \r\n")][pv % 4]
        padded = DaughtersDict(pad[0] + pad[1].join(lst) + pad[2]) if lst else DaughtersDict(pad[0] + pad[2])
        if dict(padded.items()) != counts or len(padded) != len(st) or padded.to_list() != sorted(st):
            return fail(f"DaughtersDict from the padded string {pad[0] + pad[1].join(lst) + pad[2]!r}: {dict(padded.items())} (len {len(padded)}) expected {counts}")
        dmp = DecayMode(0.5, pad[0] + pad[1].join(lst) + pad[2]) if lst else None
        if dmp is not None and dmp.to_dict()["fs"] != sorted(st):
            return fail(f"DecayMode from the padded string {pad[0] + pad[1].join(lst) + pad[2]!r}: {dmp.to_dict()['fs']}")
        e = DaughtersDict(tuple(lst))
        f = DaughtersDict({**counts, "absent": 0, "negative": -2})
        for name, dd in (("string", a), ("list", b), ("mapping", c), ("tuple", e), ("mapping with zero counts", f)):
            if dict(dd.items()) != counts:
                return fail(f"DaughtersDict from {name} {lst}: {dict(dd.items())} expected {counts}")
            if dd.to_list() != sorted(st) or dd.to_string() != " ".join(sorted(st)) or len(dd) != len(st) or list(dd) != sorted(st) and sorted(dd) != sorted(st):
                return fail(f"canonical order / length from {name}: {dd.to_list()}, len {len(dd)}")
        if not (a == b == c == e):
            return fail("constructions differ")
        dm1, dm2 = DecayMode(0.5, " ".join(lst)), DecayMode(0.5, lst)
        if dm1.to_dict() != dm2.to_dict() or len(dm1) != len(st):
            return fail("DecayMode from string and list differ")
        # a final state is a mutable counter: inspection must not freeze what later conversions report
        live = DaughtersDict(lst)
        live.to_list(), live.to_string(), repr(live)
        live["zeta"] += 2
        if st:
            live[st[0]] += 1
        exp_live = sorted(lst + ["zeta", "zeta"] + ([st[0]] if st else []))
        if live.to_list() != exp_live or live.to_string() != " ".join(exp_live) or len(live) != len(exp_live):
            return fail(f"after in-place edits the final state reports {live.to_list()}, it holds {exp_live}")
        dmod = DecayMode(0.5, lst)
        dmod.to_dict()
        dmod.daughters["zeta"] += 1
        if dmod.to_dict()["fs"] != sorted(lst + ["zeta"]) or DecayMode.from_dict(dmod.to_dict()).daughters != dmod.daughters:
            return fail(f"DecayMode.to_dict after an in-place edit of its daughters: {dmod.to_dict()['fs']}")
        s2 = (a + DaughtersDict(["K+"]))
        if not isinstance(s2, DaughtersDict) or len(s2) != len(st) + 1:
            return fail("sum of final states")
        return True
    i, name = EVT[sel - len(STATES) * 6]
    other = EVT[(sel * 7) % len(EVT)]
    try:
        dm = DecayMode.from_pdgids(0.25, [i, other[0], i], model="PHSP")
    except Exception as e:
        return fail(f"from_pdgids([{i}, {other[0]}, {i}]) raised {type(e).__name__}: {e}")
    exp = {name: 2}
    exp[other[1]] = exp.get(other[1], 0) + 1
    if dict(dm.daughters.items()) != exp or dm.bf != 0.25 or dm.metadata != {"model": "PHSP", "model_params": ""}:
        return fail(f"from_pdgids([{i}, {other[0]}, {i}]) = {dict(dm.daughters.items())}, expected {exp}")
    same = DecayMode(0.25, [name, other[1], name], model="PHSP")
    if same.to_dict() != dm.to_dict():
        return fail("from_pdgids and the name-based constructor differ")
    return True


# ---- multiplicities where they are only counted: symbolic and unbounded -------------------------------------------------------------
N_COUNTS = 4


def body_counts(sel: int, m0: int, m1: int, m2: int) -> bool:
    names = [["K+", "K-", "pi0"], ["pi+", "pi+x", "gamma"], ["a", "B", "A"], ["D*(2010)+", "D0", "D0bar"]][sel]
    given = dict(zip(names, (m0, m1, m2)))
    dd = DaughtersDict(dict(given))
    exp = {k: v for k, v in given.items() if v > 0}
    if dict(dd.items()) != exp:
        return fail(f"DaughtersDict({given}) = {dict(dd.items())}")
    total = sum(v for v in exp.values())
    if dd.__len__() != total:
        return fail(f"length {dd.__len__()} for multiplicities {given}")
    other = DaughtersDict({names[0]: m1, "extra": m2})
    s = dd + other
    exp_sum = dict(exp)
    for k, v in {names[0]: m1, "extra": m2}.items():
        if v > 0:
            exp_sum[k] = exp_sum.get(k, 0) + v
    if dict(s.items()) != exp_sum or not isinstance(s, DaughtersDict):
        return fail(f"sum {dict(s.items())} expected {exp_sum}")
    dm = DecayMode(0.5, dict(given), model="PHSP")
    if dm.__len__() != total or dict(dm.daughters.items()) != exp:
        return fail("DecayMode length / daughters")
    if dict(dd.items()) != exp:
        return fail("operands modified by the sum")
    return True
