"""C02 - layout, comments, line ends and file packaging never change what is parsed (Engine A bodies)."""
from __future__ import annotations

import os
import tempfile
import warnings

from decaylanguage.dec.dec import DecFileParser

from .decutil import digits, fail, parse, prod, snapshot

# a statement = list of tokens; decay lines carry their parameter list separately so that it can be wrapped / comma-separated
BASES = [
    [["Define", "dm", "0.507e12"], ["ModelAlias", "MA", "VSS_BMIX", ("dm",), ";"], ["Alias", "MyD0", "D0"],
     ["Alias", "MyAntiD0", "anti-D0"], ["ChargeConj", "MyD0", "MyAntiD0"],
     ["Decay", "MyD0"], ["0.5", "K-", "pi+", "PHOTOS", "SSD_CP", ("20.e12", "0.1", "1.0", "-0.8", "abc"), ";"],
     ["0.5", "K_S0", "pi0", "MA", ";"], ["Enddecay"], ["CDecay", "MyAntiD0"], ["CopyDecay", "D0", "MyD0"],
     ["Decay", "K_S0"], ["1.0", "pi+", "pi-", "PHSP", ";"], ["Enddecay"], ["yesPhotos"]],
    [["Alias", "MyRho", "rho0"], ["Particle", "MyRho", "0.8", "0.15"], ["PythiaBothParam", "ParticleDecays", ":", "mixB", "=", "off"],
     ["JetSetPar", "MSTJ(26)", "=", "0"], ["LSNONRELBW", "MyRho"], ["BlattWeisskopf", "MyRho", "3.0"], ["ChangeMassMin", "MyRho", "0.5"],
     ["IncludeBirthFactor", "MyRho", "no"], ["SetLineshapePW", "MyRho", "pi+", "pi-", "1"], ["noPhotos"],
     ["Decay", "MyRho"], ["1.0", "pi+", "pi-", "VSS", ";"], ["Enddecay"], ["Decay", "Empty0"], ["Enddecay"]],
    [["Decay", "B0sig"], ["0.25", "D*-", "mu+", "nu_mu", "PHOTOS", "HQET2", ("1.122", "0.908", "1.270", "0.852"), ";"],
     ["0.75", "D-", "pi+", "PHSP", ";"], ["Enddecay"], ["Decay", "D*-"], ["0.7", "anti-D0", "pi-", "VSS", ";"],
     ["0.3", "D-", "pi0", "VSS", ";"], ["Enddecay"], ["CDecay", "anti-B0sig"], ["Define", "unused", "-1"]],
]
EDITS = ["comments", "blank lines", "indentation", "token spacing", "CRLF", "wrapped parameters", "commas", "repeated semicolons",
         "final End"]
N_EDITS = len(BASES) * 2 ** len(EDITS)


def render(stmts, mask=0, only=None, local_mask=0):
    """mask: edits applied everywhere; local_mask: edits applied at the statements in ``only`` in addition"""
    g = [(mask >> i) & 1 for i in range(len(EDITS))]
    crlf, end = g[4], g[8]
    eol = "\r\n" if crlf else "\n"
    out = []
    if g[1]:
        out.append("")
    if g[0]:
        out.append("# leading comment; Decay X")
    for k, st in enumerate(stmts):
        e = list(g)
        if only is not None and k in only:
            e = [a | ((local_mask >> i) & 1) for i, a in enumerate(g)]
        comments, blank, indent, spacing, _, wrap, commas, semis, _ = e
        sep = "  \t " if spacing else " "
        ind = "   \t" if indent else ""
        toks = []
        for t in st:
            if isinstance(t, tuple):
                joiner = ("," + sep) if commas else sep
                if wrap:
                    joiner = joiner.rstrip(" \t") + eol + ind + "      " + ("# wrapped" + eol + "  " if comments else "")
                ptxt = joiner.join(t)
                if wrap and k % 2 == 0:
                    # the parameter list may also start on the line after the model name (which is then the last token of its line)
                    toks[-1] = toks[-1] + eol + ind + "    " + ptxt        # no blank between the model name and the line end
                    continue
                toks.append(ptxt)
            elif t == ";":
                toks[-1] = toks[-1] + (" ;; ;" if semis else ";")
            else:
                toks.append(t)
        line = ind + sep.join(toks)
        if comments:
            line += "  # comment " + str(k) + " ; Enddecay End"
        out.append(line)
        if blank and k % 2 == 0:
            out += ["", "   "]
        if comments and k % 3 == 1:
            out.append(ind + "#own-line comment")
    if end:
        out.append(("   \t" if g[2] else "") + "End")
        if g[1]:
            out.append("")
    return eol.join(out) + eol


LOCAL_EDITS = [0, 1, 2, 3, 5, 6, 7]            # the edits that act on one statement
N_LOCAL = len(BASES) * len(LOCAL_EDITS) * 16 * len(EDITS)


def body_edits_local(sel: int) -> bool:
    """thorough tier: one edit applied at one statement only (every statement position), on top of one edit applied everywhere"""
    b, rest = sel % len(BASES), sel // len(BASES)
    le, rest = LOCAL_EDITS[rest % len(LOCAL_EDITS)], rest // len(LOCAL_EDITS)
    k, ge = rest % 16, rest // 16
    stmts = BASES[b]
    if k >= len(stmts):
        return True
    base = snapshot(parse(render(stmts, 0)))
    text = render(stmts, 1 << ge if ge != le else 0, only={k}, local_mask=1 << le)
    try:
        got = snapshot(parse(text))
    except Exception as ex:
        return fail(f"edit {EDITS[le]!r} at statement {k} (+ {EDITS[ge]!r} everywhere) on base {b}: {type(ex).__name__}: {str(ex)[:200]}; text {text!r}")
    if got != base:
        diff = [(x, y) for x, y in zip(got, base) if x != y][:2]
        return fail(f"edit {EDITS[le]!r} at statement {k} (+ {EDITS[ge]!r} everywhere) on base {b} changes the answers: {diff}; text {text!r}")
    return True


def body_edits(sel: int) -> bool:
    """differential: any combination of the listed rewrites gives the same snapshot of every public query"""
    b, mask = sel % len(BASES), sel // len(BASES)
    base = snapshot(parse(render(BASES[b], 0)))
    text = render(BASES[b], mask)
    try:
        got = snapshot(parse(text))
    except Exception as ex:
        return fail(f"edits {[n for i, n in enumerate(EDITS) if (mask >> i) & 1]} on base {b}: {type(ex).__name__}: {str(ex)[:200]}; text {text!r}")
    if got != base:
        diff = [(x, y) for x, y in zip(got, base) if x != y][:2]
        return fail(f"edits {[n for i, n in enumerate(EDITS) if (mask >> i) & 1]} on base {b} change the answers: {diff}; text {text!r}")
    return True


# ---- file packaging: real files in a scratch directory, the real constructor ----------------------------------------
END_VARIANTS = [None, "End", " End  ", "\tEnd # last line", "End\n\n", "End"]       # index 5: End without a line terminator
R_CTOR = [3, 4, len(END_VARIANTS), 4, 2, 3]
N_CTOR = prod(R_CTOR)
_TMP = None


def _tmpdir():
    global _TMP
    if _TMP is None:
        _TMP = tempfile.mkdtemp(prefix="verif_c02_")
    return _TMP


def body_ctor(sel: int) -> bool:
    """the statements of a base text split over 1..3 files at a statement boundary, each file possibly closed by its own
    End line, with or without a BOM, LF or CRLF: same snapshot as the one-string parse"""
    nf1, cut, endv, bom, crlf, b = digits(sel, R_CTOR)
    nfiles = nf1 + 1
    stmts = BASES[b]
    # statement boundaries that do not fall inside a Decay block
    bounds = [i for i in range(1, len(stmts)) if not _inside_block(stmts, i)]
    cuts = sorted({bounds[(cut * 3 + j * 5) % len(bounds)] for j in range(nfiles - 1)})
    pieces, prev = [], 0
    for c in cuts + [len(stmts)]:
        pieces.append(stmts[prev:c])
        prev = c
    eol = "\r\n" if crlf else "\n"
    names = []
    for i, piece in enumerate(pieces):
        txt = render(piece, 16 if crlf else 0)
        ev = END_VARIANTS[(endv + i) % len(END_VARIANTS)]
        if ev is not None:
            txt += ev.replace("\n", eol) + ("" if (endv + i) % len(END_VARIANTS) == 5 else eol)
        data = txt.encode("utf-8")
        if (bom >> min(i, 1)) & 1:
            data = b"\xef\xbb\xbf" + data
        fn = os.path.join(_tmpdir(), f"f{i}.dec")
        with open(fn, "wb") as f:
            f.write(data)
        names.append(fn)
    base = snapshot(parse(render(stmts, 0)))
    try:
        p = DecFileParser(*names)
        with warnings.catch_warnings():
            warnings.simplefilter("ignore")
            p.parse()
        got = snapshot(p)
    except Exception as ex:
        return fail(f"files {[open(n, 'rb').read() for n in names]}: {type(ex).__name__}: {str(ex)[:200]}")
    if got != base:
        diff = [(x, y) for x, y in zip(got, base) if x != y][:2]
        return fail(f"files {[open(n, 'rb').read() for n in names]} give different answers: {diff}")
    return True


def _inside_block(stmts, i):
    depth = 0
    for st in stmts[:i]:
        if st[0] == "Decay":
            depth += 1
        elif st[0] == "Enddecay":
            depth -= 1
    return depth > 0
