"""C12 - flattening multiplies branching fractions and keeps exactly the leaves (Engine A body).

Structure (which decaying particle occurs in whose final state, with which multiplicity, the order of the mapping, the
stable set) comes from the selector.  All branching fractions are symbolic integers (exact products), all leaf
multiplicities are symbolic integers >= 1, the top-level metadata value is symbolic."""
from __future__ import annotations

from itertools import product

from decaylanguage.decay.decay import DaughtersDict, DecayChain, DecayMode

LAST_DETAIL = None


def fail(d):
    global LAST_DETAIL
    LAST_DETAIL = d
    return False


NAMES = ["M0", "R1", "R2", "R3", "R4", "R5"]
LEAF = ["l0", "l1", "l2", "l3", "l4", "l5"]
PRIMES = [3, 5, 7, 11, 13, 17]


def _shapes(k):
    """all DAG shapes over k decaying particles: particle i >= 1 occurs in the final state of a non-empty set of earlier ones"""
    per = []
    for i in range(1, k):
        per.append([tuple(p for p in range(i) if (mask >> p) & 1) for mask in range(1, 2 ** i)])
    return [tuple(c) for c in product(*per)]


def _reach(shape):
    return True


SHAPES = {k: _shapes(k) for k in (2, 3, 4, 5)}
# quick family: everything up to 4 decaying particles, and for 5 the shapes in which R4 has exactly one parent (trees and DAGs above it)
FAM_QUICK = [(k, s) for k in (2, 3, 4) for s in SHAPES[k]] + [(5, s) for s in SHAPES[5] if len(s[3]) == 1]
FAM_THOROUGH = [(k, s) for k in (2, 3, 4, 5) for s in SHAPES[k]]
# six decaying particles: chains and bushes only (the full DAG space has 9765 shapes)
SIX = [((0,), (1,), (2,), (3,), (4,)), ((0,), (0,), (0,), (0,), (0,)), ((0,), (0, 1), (1,), (2, 3), (0, 4)), ((0,), (1,), (0, 2), (3,), (1, 4)),
       ((0,), (0,), (1, 2), (3,), (3, 4))]
FAM_QUICK += [(6, s) for s in SIX[:2]]
FAM_THOROUGH += [(6, s) for s in SIX]
VARIANTS = 2 * 3          # multiplicity rule x order of the mapping


def n_sel(family):
    return sum(VARIANTS * 2 ** (k - 1) for k, _ in family)


def decode(family, sel):
    for k, shape in family:
        n = VARIANTS * 2 ** (k - 1)
        if sel < n:
            mv, rest = sel % 2, sel // 2
            pv, smask = rest % 3, rest // 3
            return k, shape, mv, pv, smask
        sel -= n
    raise IndexError(sel)


def _body(family, sel, bfs, lcs, meta, force_concrete=False):
    k, shape, mv, pv, smask = decode(family, sel)
    mult = {}
    for i in range(1, k):
        for p in shape[i - 1]:
            if k >= 6:
                mult[(p, i)] = 1 + (1 if (p + i + mv) % 3 == 0 else 0)      # 1..2: occurrence counts (exponents) stay below ~20
            else:
                mult[(p, i)] = 1 + ((p + i + mv) % 2) + (1 if (mv and p == 0 and i == k - 1) else 0)      # 1..3
    stable_idx = {i for i in range(1, k) if (smask >> (i - 1)) & 1}
    occ0 = [0] * k
    occ0[0] = 1
    for i in range(1, k):
        occ0[i] = sum(occ0[p] * mult[(p, i)] for p in shape[i - 1] if p not in stable_idx)
    # z3's nonlinear integer arithmetic decides the product identity quickly only for moderate degrees (measured: 10 s per path for
    # five symbolic factors with exponents up to 50).  A branching fraction stays symbolic when its exponent is <= 9; for shapes with
    # four decaying particles at most two, for five or six one (rotating with the selector) stay symbolic.  The others are distinct primes.
    keep = {i for i in range(k) if occ0[i] <= 9}
    if k >= 5:
        keep &= {(sel // 7) % k}
    elif k == 4:
        keep &= {sel % k, (sel // k + 1 + sel % k) % k}
    if pv != 0 and k >= 3:
        # a non-topological order of the mapping makes flatten() substitute a particle in several passes: the bf then contains
        # x**a * x**b where the oracle has x**(a+b), and z3 does not normalise powers (measured: 4 s per query, paths time out)
        keep = set()
    if force_concrete:
        keep = set(range(k))
    bfs = [b if i in keep else PRIMES[i] for i, b in enumerate(bfs)]
    given = {}
    for i in range(k):
        d = {LEAF[i]: lcs[i]}
        for (p, c), m in mult.items():
            if p == i:
                d[NAMES[c]] = m
        given[i] = d
    order = {0: list(range(k)), 1: list(reversed(range(k))), 2: list(range(1, k)) + [0]}[pv]
    decays = {}
    for i in order:
        extra = {"model": "PHSP", "model_params": [meta, "x"], "study": meta} if i == 0 else {"model": "VSS"}
        decays[NAMES[i]] = DecayMode(bfs[i], dict(given[i]), **extra)
    chain = DecayChain(NAMES[0], decays)
    stable = [NAMES[i] for i in range(1, k) if (smask >> (i - 1)) & 1]
    flat = chain.flatten(stable_particles=stable) if (stable or pv == 1) else chain.flatten()
    # ---- oracle: number of occurrences of every decaying particle in the unfolded tree (stable ones are not unfolded)
    occ = [0] * k
    occ[0] = 1
    for i in range(1, k):
        occ[i] = sum(occ[p] * mult[(p, i)] for p in shape[i - 1] if NAMES[p] not in stable)
    exp_bf = 1
    exp_fs = {}
    for i in range(k):
        if i and NAMES[i] in stable:
            if occ[i]:
                exp_fs[NAMES[i]] = occ[i]
            continue
        if occ[i] == 0:
            continue
        exp_bf = exp_bf * bfs[i] ** occ[i]
        exp_fs[LEAF[i]] = occ[i] * lcs[i]
    if list(flat.decays) != [NAMES[0]] or flat.mother != NAMES[0]:
        return fail(f"flattened chain still has sub-decays: {list(flat.decays)}")
    top = flat.decays[NAMES[0]]
    got_fs = dict(top.daughters.items())
    if set(got_fs) != set(exp_fs):
        return fail(f"final state {sorted(got_fs)} expected {sorted(exp_fs)} (shape {shape}, mult {mult}, stable {stable}, order {order})")
    for name, cnt in exp_fs.items():
        if got_fs[name] != cnt:
            return fail(f"multiplicity of {name}: {got_fs[name]} expected {cnt} (shape {shape}, mult {mult}, stable {stable}, order {order})")
    if force_concrete:
        import math
        bad = not math.isclose(top.bf, exp_bf, rel_tol=1e-12, abs_tol=0.0)
    else:
        bad = top.bf != exp_bf
    if bad:
        return fail(f"bf {top.bf} expected product {exp_bf} (shape {shape}, mult {mult}, occ {occ}, stable {stable}, order {order})")
    if top.metadata != {"model": "PHSP", "model_params": [meta, "x"], "study": meta}:
        return fail(f"top-level model information not kept: {top.metadata}")
    if not stable and not force_concrete and chain.visible_bf != exp_bf:
        return fail("visible_bf is not the product")
    # the original chain is unchanged
    if list(chain.decays) != [NAMES[i] for i in order]:
        return fail("order / keys of the original mapping changed")
    for i in range(k):
        dm = chain.decays[NAMES[i]]
        if dm.bf != bfs[i] or dict(dm.daughters.items()) != given[i]:
            return fail(f"original decay of {NAMES[i]} modified: {dict(dm.daughters.items())} vs {given[i]}")
    return True


def body_quick(sel: int, b0: int, b1: int, b2: int, b3: int, b4: int, b5: int, c0: int, c1: int, c2: int, c3: int, c4: int, c5: int,
               meta: int) -> bool:
    return _body(FAM_QUICK, sel, [b0, b1, b2, b3, b4, b5], [c0, c1, c2, c3, c4, c5], meta)


def body_thorough(sel: int, b0: int, b1: int, b2: int, b3: int, b4: int, b5: int, c0: int, c1: int, c2: int, c3: int, c4: int, c5: int,
                  meta: int) -> bool:
    return _body(FAM_THOROUGH, sel, [b0, b1, b2, b3, b4, b5], [c0, c1, c2, c3, c4, c5], meta)


N_QUICK, N_THOROUGH = n_sel(FAM_QUICK), n_sel(FAM_THOROUGH)


# ---- floats: products of small dyadic branching fractions are exact in binary floating point ---------------------------------
DYADIC = [3 * 2.0 ** -14, 5 * 2.0 ** -16, 7 * 2.0 ** -18, 11 * 2.0 ** -15, 13 * 2.0 ** -17, 3 * 2.0 ** -19]


def body_small(sel: int) -> bool:
    """the same family with small floating-point branching fractions (3*2^-14 ...): the visible bf is the exact product
    (values down to 1e-30 and below - no rounding, clipping or quantisation)"""
    k, shape, mv, pv, smask = decode(FAM_QUICK, sel)
    # exponents stay small enough for the product of the dyadic numbers to be exactly representable (53-bit mantissa)
    from fractions import Fraction
    global PRIMES
    saved = PRIMES
    PRIMES = DYADIC
    try:
        ok = _body(FAM_QUICK, sel, list(DYADIC), [1, 2, 1, 3, 1, 2], 7, force_concrete=True)
    finally:
        PRIMES = saved
    return ok
