"""C15 - the chain graph has one node and one labelled edge per decay line (Engine A body)."""
from __future__ import annotations

import re
import subprocess

from particle import latex_to_html_name
from particle.converters.bimap import DirectionalMaps

from decaylanguage.decay.decay import DecayChain, DecayMode
from decaylanguage.decay.viewer import DecayChainViewer

from . import c09
from .decutil import fail

_E2L, _ = DirectionalMaps("EvtGenName", "LaTexName")
NODE = re.compile(r'^\t(\w+) \[label=<(.*)> (?:shape=none|fillcolor="#eef3f8" style=filled)\]$')
EDGE = re.compile(r'^\t(\w+)(?::p(\d+))? -> (\w+) \[label="?([^"\]]*)"?\]$')
CELL = re.compile(r"<TD [^>]*?(?:PORT=\"p(\d+)\")?>(.*?)</TD>")
HEADER = ("// Created by", "digraph DecayChainGraph {", "\tgraph [", "\tnode [", "\tedge [", "}")


def html(name):
    try:
        return latex_to_html_name(_E2L[name])
    except Exception:
        return name


def expected_tree(chain):
    """(cells of the root, [children]) with child = (port or None, label, cells, [children]) in line order"""
    (m, modes), = chain.items()

    def kids(modes, port_of_parent):
        out = []
        for mode in modes:
            cells = [html(x if isinstance(x, str) else next(iter(x))) for x in mode["fs"]]
            sub = []
            for i, x in enumerate(mode["fs"]):
                if not isinstance(x, str):
                    for child in kids(next(iter(x.values())), i):
                        sub.append(child)
            out.append((port_of_parent, str(mode["bf"]), cells, sub))
        return out
    return [html(m)], kids(modes, None)


PORTS: dict = {}


def read_dot(src):
    nodes, edges, order = {}, [], []
    PORTS.clear()
    for line in src.splitlines():
        if not line.strip() or line.startswith(HEADER):
            continue
        mn = NODE.match(line)
        if mn:
            if mn.group(1) in nodes:
                raise ValueError(f"node identifier {mn.group(1)} used twice")
            cells = CELL.findall(mn.group(2))
            ports = [p for p, _ in cells]
            if any(ports) and ports != [str(i) for i in range(len(ports))]:
                raise ValueError(f"ports of {mn.group(1)} are {ports}")
            nodes[mn.group(1)] = [c for _, c in cells]
            PORTS[mn.group(1)] = {int(p) for p in ports if p != ""}
            continue
        me = EDGE.match(line)
        if me:
            edges.append((me.group(1), None if me.group(2) is None else int(me.group(2)), me.group(3), me.group(4)))
            continue
        raise ValueError(f"unexpected line in the DOT source: {line!r}")
    return nodes, edges


def actual_tree(nodes, edges):
    if "mother" not in nodes:
        raise ValueError("no root node for the mother")
    targets = [e[2] for e in edges]
    if len(set(targets)) != len(targets):
        raise ValueError("a node has two incoming edges")
    used = {"mother"}

    def kids(node):
        out = []
        for src, port, dst, label in edges:
            if src == node:
                if dst not in nodes:
                    raise ValueError(f"edge to undeclared node {dst}")
                used.add(dst)
                out.append((port, label, nodes[dst], kids(dst)))
        return out
    tree = (nodes["mother"], kids("mother"))
    if used != set(nodes):
        raise ValueError(f"nodes not reachable from the root: {sorted(set(nodes) - used)}")
    for src, port, dst, label in edges:
        if src not in nodes:
            raise ValueError(f"edge from undeclared node {src}")
        if port is not None and (port >= len(nodes[src]) or port not in PORTS.get(src, set())):
            raise ValueError(f"edge from a slot that does not exist: {src}:p{port} (slots {sorted(PORTS.get(src, set()))})")
    return tree


def _norm(kids):
    """children grouped by the slot they start from, in file order within a slot (expected trees list them slot by slot already)"""
    return sorted(((p if p is not None else -1), lab, tuple(cells), _norm(sub)) for p, lab, cells, sub in kids) if False else \
        [((p if p is not None else -1), lab, tuple(cells), _norm(sub)) for p, lab, cells, sub in kids]


def _by_slot(kids):
    out = {}
    for p, lab, cells, sub in kids:
        out.setdefault(p, []).append((lab, tuple(cells), _by_slot(sub)))
    return out


def _unique_bfs(chain, counter):
    (m, modes), = chain.items()
    for mode in modes:
        counter[0] += 1
        mode["bf"] = [0.001, 1e-05, 0.25, 1.0, 3][counter[0] % 5] + counter[0]
        if counter[0] % 6 == 0:
            mode["bf"] = [0, 0.0, 1][(counter[0] // 6) % 3]        # zero (and one) are branching fractions like any other
        for x in mode["fs"]:
            if not isinstance(x, str):
                _unique_bfs(x, counter)


N_GRAPH = c09.N_CHAINS
_SEEN_IDS: set = set()


def check_chain(chain, run_dot=False):
    v = DecayChainViewer(chain)
    src = v.to_string()
    try:
        nodes, edges = read_dot(src)
        got = actual_tree(nodes, edges)
    except ValueError as e:
        return f"{e}; chain {chain}; source {src!r}"
    exp = expected_tree(chain)
    if got[0] != exp[0] or _by_slot(got[1]) != _by_slot(exp[1]):
        return f"graph {got} differs from the chain's lines {exp}; chain {chain}"
    n_lines = sum(1 for _ in _lines(chain))
    if len(nodes) != n_lines + 1 or len(edges) != n_lines:
        return f"{len(nodes)} nodes / {len(edges)} edges for {n_lines} decay lines; chain {chain}"
    ids = set(nodes) - {"mother"}
    if ids & _SEEN_IDS:
        return f"node identifiers {sorted(ids & _SEEN_IDS)} were already used by an earlier graph of this session"
    _SEEN_IDS.update(ids)
    if run_dot:
        r = subprocess.run(["dot", "-Tcanon"], input=src, capture_output=True, text=True, timeout=60)
        if r.returncode != 0 or r.stderr.strip():
            return f"Graphviz rejects the source or warns about it: {r.stderr[:200]}; source {src!r}"
    return None


def _lines(chain):
    (m, modes), = chain.items()
    for mode in modes:
        yield mode
        for x in mode["fs"]:
            if not isinstance(x, str):
                yield from _lines(x)


def body_graph(sel: int) -> bool:
    import shutil
    codes, twin, defmode = c09.family(sel)
    tables, _ = c09.build(codes, twin, 0)
    have_dot = shutil.which("dot") is not None
    for k, m in enumerate(c09.P[:3]):
        if m not in tables:
            continue
        S = c09.ALL_SETS[(sel * 5 + k * 11) % len(c09.ALL_SETS)]
        chain = c09.oracle_chain(tables, m, set(S) - {m})
        _unique_bfs(chain, [sel % 7])
        err = check_chain(chain, run_dot=have_dot and (sel % 16 == 0))
        if err:
            return fail(err)
    # a chain coming from the class representation
    if codes[0] >= 2:
        dc = DecayChain("D*+", {"D*+": DecayMode(0.677, "D0 pi+ D0"), "D0": DecayMode(0.0124, "K_S0 pi0 K_S0"),
                                 "K_S0": DecayMode(0.692, "pi+ pi-"), "pi0": DecayMode(0.98823, "gamma gamma")})
        err = check_chain(dc.to_dict(), run_dot=False)
        if err:
            return fail(err)
    return True


# ---- every EvtGen name as a cell: structure + acceptance by Graphviz -----------------------------------------------------------
def _evt_names():
    from particle.converters import EvtGenName2PDGIDBiMap
    return sorted(str(k) for k in EvtGenName2PDGIDBiMap._to_map)


EVT = _evt_names()
CHUNK = 24
N_NAMES = (len(EVT) + CHUNK - 1) // CHUNK


def body_names(sel: int) -> bool:
    import shutil
    names = EVT[sel * CHUNK:(sel + 1) * CHUNK]
    half = len(names) // 2
    sub = {names[0]: [{"bf": 0.25, "fs": names[1:half] or ["gamma"], "model": "PHSP", "model_params": ""}]}
    chain = {"Upsilon(4S)": [{"bf": 0.5, "fs": [sub] + names[half:], "model": "PHSP", "model_params": ""},
                             {"bf": 1e-05, "fs": list(reversed(names[half:])), "model": "", "model_params": ""}]}
    err = check_chain(chain, run_dot=shutil.which("dot") is not None)
    return err is None or fail(err)
