"""C13 - a decay descriptor string determines the decay tree it was made from (Engine A body)."""
from __future__ import annotations

from collections import Counter

from decaylanguage.decay.decay import DecayChain, DecayMode
from decaylanguage.utils.utilities import DescriptorFormat

from .c12 import SHAPES
from .decutil import fail

# decaying particles and leaves with parentheses, quotes and signs in their names
POOLS = [
    (["Upsilon(4S)", "K_1(1270)+", "anti-K*0", "f'_0", "D*(2010)-"], [["gamma"], ["pi+", "pi0"], ["K-", "pi+"], ["pi+", "pi-"], ["anti-D0", "pi-"]]),
    (["B0", "D*-", "anti-D0", "K_S0", "pi0"], [["nu_mu", "mu+"], ["pi-"], ["K+"], ["pi+", "pi-"], ["gamma", "gamma"]]),
]
PATTERNS = [
    None,                                                                   # the default format
    ("{mother} --> {daughters}", "[{mother} --> {daughters}]"),
    ("{mother} => {daughters}", "{mother} (=> {daughters})"),
    ("{mother} -> {daughters}", "{{{mother} -> {daughters}}}"),              # literal braces, escaped as format strings require
    ("{daughters} <- {mother}", "[[{daughters} <- {mother}]]"),            # daughters first
]
import os as _os

THOROUGH = _os.environ.get("VERIF_TIER") == "thorough"
STRUCTS = [(k, s, m2) for k in (1, 2, 3, 4, 5) for s in (SHAPES[k] if k >= 2 else [()]) for m2 in (0, 1)
           if k <= 4 or THOROUGH or all(len(ps) == 1 for ps in s)]
N_DESCR = len(STRUCTS) * len(POOLS) * len(PATTERNS)
DEFAULT = {"decay_pattern": "{mother} -> {daughters}", "sub_decay_pattern": "({mother} -> {daughters})"}


def _tree(k, shape, m2, names, leaves):
    """nested tuples (mother, Counter of daughters) with sub-trees as hashable items"""
    given = {}
    for i in range(k):
        c = Counter(leaves[i])
        given[i] = c
    for i in range(1, k):
        for p in shape[i - 1]:
            given[p][names[i]] += 2 if (m2 and (p + i) % 2 == 0) else 1
    return given


def _expected(given, names, k, i):
    items = []
    for n, c in given[i].items():
        for _ in range(c):
            items.append(_expected(given, names, k, names.index(n)) if (n in names[:k] and names.index(n) > i) else n)
    return (names[i], tuple(sorted(items, key=repr)))


def _split(pattern):
    """literal pieces of a pattern and which placeholder comes first"""
    a, b = "\x01", "\x02"
    s = pattern.format(mother=a, daughters=b)
    first = a if s.index(a) < s.index(b) else b
    second = b if first == a else a
    pre, rest = s.split(first, 1)
    mid, post = rest.split(second, 1)
    return pre, mid, post, first == a


def _read(s, pattern_top, pattern_sub, top=True):
    """read a descriptor back by matching its brackets; returns (mother, sorted tuple of items)"""
    pre, mid, post, mother_first = _split(pattern_top if top else pattern_sub)
    if not (s.startswith(pre) and s.endswith(post)):
        raise ValueError(f"{s!r} does not have the shape of pattern {pattern_top if top else pattern_sub!r}")
    body = s[len(pre): len(s) - len(post)] if post else s[len(pre):]
    # the separator between mother and daughters is the first occurrence of `mid` at bracket depth 0
    depth, cut = 0, None
    for i in range(len(body)):
        if depth == 0 and body.startswith(mid, i) and (mother_first or True):
            cut = i
            break
        if body[i] in "([{":
            depth += 1
        elif body[i] in ")]}":
            depth -= 1
    if cut is None:
        raise ValueError(f"no separator {mid!r} in {body!r}")
    left, right = body[:cut], body[cut + len(mid):]
    mother, dstr = (left, right) if mother_first else (right, left)
    spre, smid, spost, s_mother_first = _split(pattern_sub)
    items = []
    for tok in _tokens(dstr, pattern_sub):
        if _is_sub(tok, spre, smid, spost):
            items.append(_read(tok, pattern_top, pattern_sub, top=False))
        else:
            items.append(tok)
    return (mother, tuple(sorted(items, key=repr)))


def _is_sub(tok, spre, smid, spost):
    return smid in tok


def _tokens(dstr, pattern_sub):
    """split a daughters string at blanks that are outside every sub-decay; a sub-decay rendered by a pattern that has blanks
    outside its brackets ('{mother} (=> {daughters})') is glued back together"""
    out, depth, cur = [], 0, ""
    for ch in dstr:
        if ch == " " and depth == 0:
            out.append(cur)
            cur = ""
            continue
        if ch in "([{":
            depth += 1
        elif ch in ")]}":
            depth -= 1
        cur += ch
    out.append(cur)
    out = [t for t in out if t != ""]
    spre, smid, spost, mf = _split(pattern_sub)
    if spre == "" and mf and smid.startswith(" "):
        # pattern "M (=> ds)": the mother name is a separate blank-delimited token followed by the bracket
        glued, i = [], 0
        while i < len(out):
            if i + 1 < len(out) and out[i + 1].startswith(smid.strip()[0]) and out[i + 1].endswith(spost):
                glued.append(out[i] + " " + out[i + 1])
                i += 2
            else:
                glued.append(out[i])
                i += 1
        out = glued
    return out


def _render(chain, pats):
    DescriptorFormat.config = dict(DEFAULT)
    try:
        if pats is None:
            return chain.to_string()
        with DescriptorFormat(*pats):
            return chain.to_string()
    finally:
        DescriptorFormat.config = dict(DEFAULT)


def body_descr(sel: int) -> bool:
    si, rest = sel % len(STRUCTS), sel // len(STRUCTS)
    pi, pt = rest % len(POOLS), rest // len(POOLS)
    k, shape, m2 = STRUCTS[si]
    names, leaves = POOLS[pi]
    given = _tree(k, shape, m2, names, leaves)
    exp = _expected(given, names, k, 0)
    pats = PATTERNS[pt]
    strings = []
    for variant in range(3):
        order = {0: list(range(k)), 1: list(reversed(range(k))), 2: list(range(1, k)) + [0]}[variant]
        decays = {}
        for i in order:
            lst = [n for n, c in given[i].items() for _ in range(c)]
            if variant == 1:
                lst.reverse()
            elif variant == 2:
                lst = lst[1:] + lst[:1]
            decays[names[i]] = DecayMode(0.5, lst if variant else " ".join(lst))
        chain = DecayChain(names[0], decays)
        strings.append(_render(chain, pats))
    if len(set(strings)) != 1:
        return fail(f"the descriptor depends on the order daughters / sub-decays were given in: {strings}")
    s = strings[0]
    top, sub = (DEFAULT["decay_pattern"], DEFAULT["sub_decay_pattern"]) if pats is None else pats
    try:
        got = _read(s, top, sub)
    except Exception as e:
        return fail(f"descriptor {s!r} cannot be read back with patterns {top!r} / {sub!r}: {e}")
    if got != exp:
        return fail(f"descriptor {s!r} reads back as {got}, the chain is {exp}")
    # the descriptor follows the chain: after an in-place edit of any final state (a public Counter) it shows the new tree.
    # every decaying particle x every edit, each on a freshly built chain
    for ti in range(k):
        for edit in range(4):
            for rendered_before in (True, False):             # C13-m10: a string cached by an earlier rendering
                chain = DecayChain(names[0], {names[i]: DecayMode(0.5, [n for n, c in given[i].items() for _ in range(c)]) for i in range(k)})
                if rendered_before:
                    _render(chain, pats)
                r = _edit_and_read(chain, names, leaves, ti, edit, pats, top, sub, s)
                if r is not True:
                    return r
    return True


def _edit_and_read(chain, names, leaves, ti, edit, pats, top, sub, s):
    root = chain.decays[names[ti]].daughters
    leaf0 = leaves[ti][0]
    if edit == 0:
        root.pop(leaf0)
    elif edit == 1:
        saved = {n: c for n, c in root.items() if n != leaf0}
        root.clear()
        root.update(saved)
    elif edit == 2:
        root.setdefault("e-", 2)
    else:
        root.popitem()
    if sum(root.values()) == 0:
        return True

    def now(m):
        items = []
        for n, c in chain.decays[m].daughters.items():
            for _ in range(c):
                items.append(now(n) if n in chain.decays else n)
        return (m, tuple(sorted(items, key=repr)))
    exp2 = now(names[0])
    what = f"{['pop', 'clear+update', 'setdefault', 'popitem'][edit]} on the final state of {names[ti]}"
    try:
        s2 = _render(chain, pats)
        got2 = _read(s2, top, sub)
    except Exception as e:
        return fail(f"after {what}: descriptor cannot be rendered / read back: {type(e).__name__}: {e} (before the edit: {s!r})")
    if got2 != exp2:
        return fail(f"after {what} the descriptor {s2!r} reads back as {got2}, the chain is {exp2} (before the edit: {s!r})")
    return True
