"""Shared by C18 (emit) and C19: a family of four-body AmpGen option files over all supported spin structures, both topologies
and the four lineshape kinds, converted by the real GooFit code generators; the generated C++ / Python text is read back."""
from __future__ import annotations

import contextlib
import io
import os
import re
import sys
import tempfile
import types
from itertools import permutations

from decaylanguage.modeling.ampgen2goofit import ampgen2goofit, ampgen2goofitpy
from decaylanguage.modeling.amplitudechain import AmplitudeChain
from decaylanguage.modeling.goofit import GooFitChain, GooFitPyChain

from . import c17  # noqa: F401  (memoises particle_from_string_name)
from .decutil import fail

# today's table of supported spin structures (a pinned copy: the oracle for "the amplitude's spin factor(s)")
SPINFACTORS = {
    "DtoA1P1_A1toS2P2_S2toP3P4": "DtoAP1_AtoSP2_StoP3P4", "DtoA1P1_A1toV2P2Dwave_V2toP3P4": "DtoAP1_AtoVP2Dwave_VtoP3P4",
    "DtoA1P1_A1toV2P2_V2toP3P4": "DtoAP1_AtoVP2Dwave_VtoP3P4", "DtoS1S2_S1toP1P2_S2toP3P4": "ONE",
    "DtoT1P1_T1toV2P2_V2toP3P4": "DtoTP1_TtoVP2_VtoP3P4", "DtoV1S2_V1toP1P2_S2toP3P4": "DtoVS_VtoP1P2_StoP3P4",
    "DtoV1V2_V1toP1P2_V2toP3P4": "DtoV1V2_V1toP1P2_V2toP3P4_S", "DtoV1V2_V1toP1P2_V2toP3P4_D": "DtoV1V2_V1toP1P2_V2toP3P4_D",
    "DtoV1V2_V1toP1P2_V2toP3P4_P": "DtoV1V2_V1toP1P2_V2toP3P4_P", "Dtos1P1_s1toS2P2_S2toP3P4": "DtoPP1_PtoSP2_StoP3P4",
    "Dtos1P1_s1toV2P2_V2toP3P4": "DtoPP1_PtoVP2_VtoP3P4",
}

# (key, line, topology, spin structure, L of the top decay, [(resonance name as written, lineshape kind, L)] in vertex order, leaves in tree order)
KM = "kMatrix"
FAMILY = [
    ("VV_S", "D0{K*(892)bar0{K-,pi+},rho(770)0{pi+,pi-}}", "12_34", "DtoV1V2_V1toP1P2_V2toP3P4", 0,
     [("K*(892)bar0", "RBW", 1), ("rho(770)0", "RBW", 1)], ["K-", "pi+", "pi+", "pi-"]),
    ("VV_P", "D0[P]{K*(892)bar0{K-,pi+},rho(770)0{pi+,pi-}}", "12_34", "DtoV1V2_V1toP1P2_V2toP3P4_P", 1,
     [("K*(892)bar0", "RBW", 1), ("rho(770)0", "RBW", 1)], ["K-", "pi+", "pi+", "pi-"]),
    ("VV_D", "D0[D]{K*(892)bar0{K-,pi+},rho(770)0{pi+,pi-}}", "12_34", "DtoV1V2_V1toP1P2_V2toP3P4_D", 2,
     [("K*(892)bar0", "RBW", 1), ("rho(770)0", "RBW", 1)], ["K-", "pi+", "pi+", "pi-"]),
    ("VS", "D0{K*(892)bar0{K-,pi+},PiPi00[kMatrix.pole.1]{pi+,pi-}}", "12_34", "DtoV1S2_V1toP1P2_S2toP3P4", 1,
     [("K*(892)bar0", "RBW", 1), ("PiPi00", KM, 0)], ["K-", "pi+", "pi+", "pi-"]),
    ("SS", "D0{KPi00[FOCUS.Kpi]{K-,pi+},PiPi00[kMatrix.prod.0]{pi+,pi-}}", "12_34", "DtoS1S2_S1toP1P2_S2toP3P4", 0,
     [("KPi00", "FOCUS", 0), ("PiPi00", KM, 0)], ["K-", "pi+", "pi+", "pi-"]),
    ("AVP", "D0{a(1)(1260)+{rho(770)0{pi+,pi-},pi+},K-}", "1_2_34", "DtoA1P1_A1toV2P2_V2toP3P4", 1,
     [("a(1)(1260)+", "RBW", 0), ("rho(770)0", "RBW", 1)], ["pi+", "pi-", "pi+", "K-"]),
    ("AVP_D", "D0{a(1)(1260)+[D]{rho(770)0{pi+,pi-},pi+},K-}", "1_2_34", "DtoA1P1_A1toV2P2Dwave_V2toP3P4", 1,
     [("a(1)(1260)+", "RBW", 2), ("rho(770)0", "RBW", 1)], ["pi+", "pi-", "pi+", "K-"]),
    ("AVP_spline", "D0{a(1)(1260)+[GSpline.EFF]{rho(770)0{pi+,pi-},pi+},K-}", "1_2_34", "DtoA1P1_A1toV2P2_V2toP3P4", 1,
     [("a(1)(1260)+", "GSpline", 0), ("rho(770)0", "RBW", 1)], ["pi+", "pi-", "pi+", "K-"]),
    ("ASP", "D0{a(1)(1260)+{PiPi20[kMatrix.pole.0]{pi+,pi-},pi+},K-}", "1_2_34", "DtoA1P1_A1toS2P2_S2toP3P4", 1,
     [("a(1)(1260)+", "RBW", 1), ("PiPi20", KM, 0)], ["pi+", "pi-", "pi+", "K-"]),
    ("TVP", "D0{K(2)*(1430)bar-{K*(892)bar0{K-,pi+},pi-},pi+}", "1_2_34", "DtoT1P1_T1toV2P2_V2toP3P4", 2,
     [("K(2)*(1430)bar-", "RBW", 1), ("K*(892)bar0", "RBW", 1)], ["K-", "pi+", "pi-", "pi+"]),
    ("PSP", "D0{K(1460)bar-{PiPi30[kMatrix.pole.0]{pi+,pi-},K-},pi+}", "1_2_34", "Dtos1P1_s1toS2P2_S2toP3P4", 0,
     [("K(1460)bar-", "RBW", 0), ("PiPi30", KM, 0)], ["pi+", "pi-", "K-", "pi+"]),
    ("PVP", "D0{K(1460)bar-[GSpline.EFF]{K*(892)bar0{K-,pi+},pi-},pi+}", "1_2_34", "Dtos1P1_s1toV2P2_V2toP3P4", 0,
     [("K(1460)bar-", "GSpline", 1), ("K*(892)bar0", "RBW", 1)], ["K-", "pi+", "pi-", "pi+"]),
]
# two resonances of the same name; needs an event type with two different repeated species
RHORHO = ("VV_same", "D0{rho(770)0{pi+,pi-},rho(770)0{pi+,pi-}}", "12_34", "DtoV1V2_V1toP1P2_V2toP3P4", 0,
          [("rho(770)0", "RBW", 1), ("rho(770)0", "RBW", 1)], ["pi+", "pi-", "pi+", "pi-"])
PHIRHO = ("VV_KKpipi", "D0[D]{phi(1020)0{K+,K-},rho(770)0{pi+,pi-}}", "12_34", "DtoV1V2_V1toP1P2_V2toP3P4_D", 2,
          [("phi(1020)0", "RBW", 1), ("rho(770)0", "RBW", 1)], ["K+", "K-", "pi+", "pi-"])
# three identical particles (3! orderings); also with all four identical in the event type position pattern
KSTAR3PI = ("VV_3pi", "D0{K*(892)bar0{K-,pi+},rho(770)0{pi+,pi+}}", "12_34", "DtoV1V2_V1toP1P2_V2toP3P4", 0,
            [("K*(892)bar0", "RBW", 1), ("rho(770)0", "RBW", 1)], ["K-", "pi+", "pi+", "pi+"])
A1_3PI = ("AVP_3pi", "D0{a(1)(1260)+{rho(770)0{pi+,pi+},pi+},K-}", "1_2_34", "DtoA1P1_A1toV2P2_V2toP3P4", 1,
          [("a(1)(1260)+", "RBW", 0), ("rho(770)0", "RBW", 1)], ["pi+", "pi+", "pi+", "K-"])
EXTRA = [RHORHO, PHIRHO, KSTAR3PI, A1_3PI]
EXTRA_EVENTS = {"VV_same": [["pi+", "pi-", "pi+", "pi-"], ["pi+", "pi+", "pi-", "pi-"], ["pi-", "pi+", "pi+", "pi-"], ["pi+", "pi-", "pi-", "pi+"]],
                "VV_KKpipi": [["K+", "K-", "pi+", "pi-"], ["pi+", "K+", "pi-", "K-"], ["K-", "K+", "pi-", "pi+"], ["pi-", "pi+", "K-", "K+"]]}
_EV3 = [["K-", "pi+", "pi+", "pi+"], ["pi+", "K-", "pi+", "pi+"], ["pi+", "pi+", "pi+", "K-"], ["pi+", "pi+", "K-", "pi+"]]
EXTRA_EVENTS.update({"VV_3pi": _EV3, "AVP_3pi": _EV3})
EVENT_TYPES = [["K-", "pi+", "pi+", "pi-"], ["pi+", "K-", "pi+", "pi-"], ["pi-", "pi+", "K-", "pi+"], ["pi+", "pi+", "pi-", "K-"]]
COUPLINGS = [("2", "1", "0", "2", "0", "0"), ("0", "0.5", "0.1", "0", "1.5", "0.2"), ("0", "-0.3", "0.01", "2", "0.7", "0.0")]
PARAMS = """a(1)(1260)+::Spline::Min 0.18412
a(1)(1260)+::Spline::Max 1.9
a(1)(1260)+::Spline::N 2
a(1)(1260)+::Spline::Gamma::0 2 1.0 0
a(1)(1260)+::Spline::Gamma::1 2 2.0 0
K(1460)bar-::Spline::Min 0.6
K(1460)bar-::Spline::Max 3.0
K(1460)bar-::Spline::N 3
K(1460)bar-::Spline::Gamma::0 2 1.5 0
K(1460)bar-::Spline::Gamma::1 2 2.5 0
K(1460)bar-::Spline::Gamma::2 2 3.5 0
a(1)(1260)+_mass 0 1195.05 1.04
D0_radius 2 0.0037559 0
f_scatt0 2 0.23399 0
f_scatt1 2 0.15044 0
f_scatt2 0 -0.20545 0.1
D0_width 0 1.5 0
rho(770)0_mass 0 775.26 0.0
IS_p1_pipi 2 0.22889 0
IS_p1_KK 2 -0.55377 0
IS_p1_mass 2 0.651 0
IS_p2_pipi 2 0.94128 0
sA0 2 -0.15 0
sA 2 1 0
s0_prod 2 -0.07 0
s0_scatt 2 -3.92637 0
"""
PARAMS_KMATRIX_ONLY = "\n".join(ln for ln in PARAMS.splitlines() if "Spline" not in ln) + "\n"


def perms_oracle(leaves, event):
    """all one-to-one, type-respecting assignments of the leaves to positions of the event type (brute force)"""
    n = len(leaves)
    return sorted(p for p in permutations(range(len(event)), n) if all(event[p[j]] == leaves[j] for j in range(n)))


def masses(topology, p):
    if topology == "12_34":
        return [f"M_{p[0] + 1}{p[1] + 1}", f"M_{p[2] + 1}{p[3] + 1}"]
    return [f"M_{p[0] + 1}{p[1] + 1}_{p[2] + 1}", f"M_{p[0] + 1}{p[1] + 1}"]


SF_RE = re.compile(r'SpinFactor\("SF", SF_4Body(?:::|\.)(\w+)\s*, (\d+), (\d+), (\d+), (\d+)\)')
LS_RE = re.compile(r'Lineshapes(?:::|\.)(RBW|GSpline|kMatrix|FOCUS)\("([^"]+)"(.*?), (\d+), (M_\d\d(?:_\d)?), FF(?:::|\.)BL2', re.S)
NPERM_RE = re.compile(r"spin_factor_list(?:\.back\(\)|\[-1\]),\s*(\d+)")
AMP_NAME_RE = re.compile(r'(?:Amplitude\{|Amplitude\()\s*"([^"]+)"')
COEF_CPP = re.compile(r'mkvar\("([^"]+)", (true|false), ([-+.\deE]+), ([-+.\deE]+)\)')
COEF_PY = re.compile(r'Variable\("([^"]+)", ([-+.\deE]+)(?:,([-+.\deE]+), 0\., 1000\.)?\)')


def text_of(entries, event, params, coupling_offset=0):
    out = ["EventType D0 " + " ".join(event)]
    for i, e in enumerate(entries):
        out.append(e[1] + " " + " ".join(COUPLINGS[(i + coupling_offset) % len(COUPLINGS)]))
    return "\n".join(out) + "\n" + params


def reset_state():
    # the reader keeps process-wide sets and a switch on its classes (finding F8, property C20 - not claimed here): every class gets
    # fresh ones, otherwise particles of files read earlier in the worker leak into the headers of later outputs
    for cls in (AmplitudeChain, GooFitChain, GooFitPyChain):
        cls.cartesian = False
        cls.all_particles = set()
        cls.final_particles = set()


def check_amplitude_code(code, entry, event, lang):
    """the code generated for one amplitude against the statement of C18; returns an error string or None"""
    key, line, topo, struct, L_top, res, leaves = entry
    perms = perms_oracle(leaves, event)
    sfs = [SPINFACTORS[struct]]
    if L_top > 0:
        sfs.append(("FF_12_34_L" if topo == "12_34" else "FF_123_4_L") + str(L_top))
    got_sf = [(m[0], tuple(int(x) for x in m[1:])) for m in SF_RE.findall(code)]
    if len(got_sf) != len(perms) * len(sfs):
        return f"{key}/{lang}: {len(got_sf)} spin factors for {len(perms)} permutations x {sfs}: {got_sf}"
    groups = [got_sf[i * len(sfs):(i + 1) * len(sfs)] for i in range(len(perms))]
    got_perms = []
    for g in groups:
        if [x[0] for x in g] != sfs or len({x[1] for x in g}) != 1:
            return f"{key}/{lang}: spin-factor group {g}, expected factors {sfs} with one permutation"
        got_perms.append(g[0][1])
    if sorted(got_perms) != perms:
        return f"{key}/{lang}: permutations {got_perms}, expected each of {perms} once (event type {event})"
    got_ls = [(k, n, int(L), m) for k, n, _, L, m in LS_RE.findall(code)]
    exp_ls = []
    for p in got_perms:
        ms = masses(topo, p)
        for (rn, kind, L), m in zip(res, ms):
            exp_ls.append((kind, rn, L, m))
    if got_ls != exp_ls:
        return f"{key}/{lang}: lineshapes {got_ls}, expected {exp_ls}"
    n = NPERM_RE.findall(code)
    if [int(x) for x in n] != [len(perms)]:
        return f"{key}/{lang}: declared number of permutations {n}, there are {len(perms)}"
    return None


def fake_goofit():
    """a recording stand-in for the goofit module: every attribute / call / item access yields another recorder"""
    class Rec:
        def __init__(self, name="goofit"):
            object.__setattr__(self, "_n", name)

        def __getattr__(self, k):
            return Rec(self._n + "." + k)

        def __setattr__(self, k, v):
            object.__setattr__(self, k, v)

        def __call__(self, *a, **k):
            return Rec(self._n + "()")

        def __repr__(self):
            return self._n

    mod = types.ModuleType("goofit")
    names = ["DecayInfo4", "Variable", "Lineshapes", "FF", "SpinFactor", "SF_4Body", "Amplitude"]
    names += [f"M_{a}{b}" for a in "1234" for b in "1234" if a != b] + [f"M_{a}{b}_{c}" for a in "1234" for b in "1234" for c in "1234"
                                                                       if len({a, b, c}) == 3]
    for n in names:
        setattr(mod, n, Rec(n))
    mod.__all__ = names
    return mod


_TMP = None


def write_tmp(name, text):
    global _TMP
    if _TMP is None:
        _TMP = tempfile.mkdtemp(prefix="verif_gen_")
    fn = os.path.join(_TMP, name)
    with open(fn, "w") as f:
        f.write(text)
    return fn


def strip_time(s):
    return "\n".join(ln for ln in s.splitlines() if not ln.startswith("Generated on"))


def convert(fn, which, ret):
    """(returned text, captured stdout) of one converter call"""
    f = ampgen2goofit if which == "cpp" else ampgen2goofitpy
    buf = io.StringIO()
    with contextlib.redirect_stdout(buf), contextlib.redirect_stderr(io.StringIO()):
        r = f(fn, ret_output=ret)
    return r, buf.getvalue()
