"""C01 - decay tables read from a .dec text are exactly what the text states (Engine A harness bodies).

Each body decodes a concrete selector into a *description* (list of blocks / lines), renders it to text, runs the real
``DecFileParser`` and compares every observable with the description itself (the oracle: first block per mother, file
order, float(literal), '' when no parameters)."""
from __future__ import annotations

from decaylanguage.dec.enums import known_decay_models

from .decutil import NAME_POOL, NUM_POOL, details, digits, fail, parse, prod

MODELS = tuple(known_decay_models)
MOTHERS = ["B0", "D_s*+", "K~0"]


def _expected_line(bf, ds, photos, model, params):
    return {"bf": float(bf), "fs": list(ds), "model": ("PHOTOS " if photos else "") + model,
            "model_params": "" if params is None else list(params)}


def _check(text, blocks, p=None):
    """blocks: [(mother, [(bf_literal, daughters, photos, model, params_text, params_expected)])] in file order"""
    p = p or parse(text)
    first = {}
    for m, lines in blocks:
        first.setdefault(m, lines)
    exp_names = list(first)
    got_names = p.list_decay_mother_names()
    if got_names != exp_names:
        return fail(f"mother names {got_names} != {exp_names} for text {text!r}")
    if p.number_of_decays != len(exp_names):
        return fail(f"number_of_decays {p.number_of_decays} != {len(exp_names)}")
    for m in exp_names:
        lines = first[m]
        exp_modes = [list(ds) for _, ds, _, _, _, _ in lines]
        got_modes = p.list_decay_modes(m)
        if got_modes != exp_modes:
            return fail(f"list_decay_modes({m!r}) = {got_modes}, expected {exp_modes}; text {text!r}")
        exp_det = [_expected_line(bf, ds, ph, mo, pe) for bf, ds, ph, mo, _, pe in lines]
        got_det = details(p, m)
        if got_det != exp_det:
            return fail(f"details({m!r}) = {got_det}, expected {exp_det}; text {text!r}")
        for g, e in zip(got_det, exp_det):
            if type(g["bf"]) is not float or any(type(x) is not str for x in g["fs"]):
                return fail(f"types in {g}")
            if e["model_params"] != "" and [type(x) for x in g["model_params"]] != [type(x) for x in e["model_params"]]:
                return fail(f"parameter types {g['model_params']} vs {e['model_params']}")
        all_d = sorted({d for _, ds, _, _, _, _ in lines for d in ds})
        chain = p.build_decay_chains(m, stable_particles=all_d)
        exp_chain = {m: [_expected_line(bf, ds, False, mo, pe) for bf, ds, _, mo, _, pe in lines]}
        if chain != exp_chain:
            return fail(f"build_decay_chains({m!r}) = {chain}, expected {exp_chain}")
    return True


def _render(blocks, between=0):
    out = []
    for i, (m, lines) in enumerate(blocks):
        if between == 1 and i % 2 == 1:
            out += ["Define dmx 0.5", "Alias MyX pi+"]
        if between == 2:
            out += ["# comment Decay Zz", "", "CDecay Zz" if i == 0 else "yesPhotos"]
        out.append(f"Decay {m}")
        for bf, ds, ph, mo, ptxt, _ in lines:
            out.append(" ".join([bf] + list(ds) + (["PHOTOS"] if ph else []) + [mo] + ([ptxt] if ptxt else [])) + ";")
        out.append("Enddecay")
    return "\n".join(out) + "\n"


# ---- family "blocks": every sequence of 0..5 Decay blocks over 3 mothers ---------------------------------------
import os as _os

THOROUGH = _os.environ.get("VERIF_TIER") == "thorough"
_SEQS = [()]
for _n in range(1, 7 if THOROUGH else 6):
    _SEQS += [tuple((k // 3 ** j) % 3 for j in range(_n)) for k in range(3 ** _n)]
N_BLOCKS = len(_SEQS) * 3


def body_blocks(sel: int) -> bool:
    seq = _SEQS[sel % len(_SEQS)]
    between = sel // len(_SEQS)
    blocks = []
    for i, mi in enumerate(seq):
        lines = []
        for j in range((i + mi) % 3):                      # 0, 1 or 2 lines: empty blocks included
            ds = [NAME_POOL[(3 * i + j + k) % len(NAME_POOL)] for k in range(2)]
            lines.append((NUM_POOL[(i + 2 * j) % len(NUM_POOL)], ds, False, "PHSP", "", None))
        blocks.append((MOTHERS[mi], lines))
    return _check(_render(blocks, between), blocks)


# ---- family "lines": one block, 0..5 lines, every numeric literal form as branching fraction -------------------
R_LINES = [6, len(NUM_POOL), 4]
N_LINES = prod(R_LINES)


def body_lines(sel: int) -> bool:
    n, off, shape = digits(sel, R_LINES)
    lines = []
    for j in range(n):
        nd = (j + shape) % 4
        ds = [NAME_POOL[(off + 5 * j + k) % len(NAME_POOL)] for k in range(nd)]
        ph = (j + shape) % 2 == 1
        lines.append((NUM_POOL[(off + j) % len(NUM_POOL)], ds, ph, MODELS[(7 * off + j) % len(MODELS)], "", None))
    blocks = [("anti-B0", lines)]
    return _check(_render(blocks), blocks)


# ---- family "daughters": one line with 0..5 daughters over the whole alphabet -----------------------------------
R_DAU = [6, len(NAME_POOL)]
N_DAU = prod(R_DAU)


def body_daughters(sel: int) -> bool:
    k, off = digits(sel, R_DAU)
    ds = [NAME_POOL[(off + 7 * i) % len(NAME_POOL)] for i in range(k)]
    blocks = [(NAME_POOL[off], [("0.5", ds, off % 2 == 0, "PHSP", "", None), ("0.5", list(reversed(ds)), False, "VSS", "", None)])]
    return _check(_render(blocks), blocks)


# ---- family "model": every published model x PHOTOS x parameter variants --------------------------------------
R_MODEL = [len(MODELS), 2, 6]
N_MODEL = prod(R_MODEL)


def body_model(sel: int) -> bool:
    mi, ph, var = digits(sel, R_MODEL)
    model = MODELS[mi]
    pre = ""
    if var == 0:
        ptxt, pexp = "", None
    elif var == 1:
        lits = [NUM_POOL[(mi + i) % len(NUM_POOL)] for i in range(3)]
        ptxt, pexp = " ".join(lits), [float(x) for x in lits]
    elif var == 2:
        # words only - including the ones float() would accept (inf, nan, infinity): they are words of the label alphabet
        ws = ["DtoKpipipi_v1", "x.y", "inf", "nan", "-inf", "Infinity", "+nan", "e5", "True"]
        ws = ws[mi % 3:] + ws[:mi % 3]
        ptxt, pexp = " ".join(ws), list(ws)
    elif var == 3:
        pre = "Define dm 0.507e12\nDefine beta -0.3\n"
        ptxt, pexp = "dm 1.0 -beta undefined_name -dmx", [0.507e12, 1.0, 0.3, "undefined_name", "-dmx"]
    elif var == 4:
        ptxt, pexp = "1.0, 2.5 ,\n   abc\n  -3e2", [1.0, 2.5, "abc", -300.0]
    else:
        lits = [NUM_POOL[(mi + 5 + i) % len(NUM_POOL)] for i in range(8)]
        ptxt, pexp = " ".join(lits), [float(x) for x in lits]
    blocks = [("B0", [("1.0", ["pi+", "pi-"], bool(ph), model, ptxt, pexp)])]
    return _check(pre + _render(blocks), blocks)


# ---- the post-processing layer for every numeric value: parse() on hand-built trees whose numeric tokens carry symbolic floats --------
class Tok:
    def __init__(self, value):
        self.value = value

    def __deepcopy__(self, memo):
        return Tok(self.value)


class _StubLark:
    tree = None

    def __init__(self, *a, **k):
        pass

    def parse(self, text):
        return _StubLark.tree


N_TREE = 4


def body_tree_values(sel: int, x: float, y: float, z: float) -> bool:
    """DecFileParser.parse() and the table queries downstream of Lark, with the tree given directly: branching fractions and
    numeric parameters are symbolic floats (what the lexer lemmas + B1 guarantee about real texts is the shape of this tree)"""
    import warnings
    from lark import Tree
    import decaylanguage.dec.dec as decmod
    from decaylanguage.dec.dec import DecFileParser
    T = lambda name, *ch: Tree(name, list(ch))

    def line(bf, ds, model, params=None, photos=False):
        ch = [T("value", Tok(bf))] + [T("particle", Tok(d)) for d in ds] + ([T("photos")] if photos else [])
        m = [Tok(model)] + ([T("model_options", *[T("value", Tok(p)) if not isinstance(p, str) else Tok(p) for p in params])] if params else [])
        return T("decayline", *ch, T("model", *m))

    def block(m, *lines):
        return T("decay", T("particle", Tok(m)), *lines)

    if sel == 0:
        tree = T("start", block("B0", line(x, ["K+", "pi-"], "SVS_CP", [z, "word", x, "dm"], True), line(y, [], "PHSP")),
                 T("define", Tok("dm"), Tok(y)))
        exp = {"B0": [{"bf": x, "fs": ["K+", "pi-"], "model": "PHOTOS SVS_CP", "model_params": [z, "word", x, y]},
                      {"bf": y, "fs": [], "model": "PHSP", "model_params": ""}]}
    elif sel == 1:
        tree = T("start", block("B0", line(x, ["K+"], "PHSP")), block("D0", line(z, ["pi0"], "PHSP")), block("B0", line(y, ["K-"], "PHSP")))
        exp = {"B0": [{"bf": x, "fs": ["K+"], "model": "PHSP", "model_params": ""}], "D0": [{"bf": z, "fs": ["pi0"], "model": "PHSP", "model_params": ""}]}
    elif sel == 2:
        tree = T("start", block("D0", line(x, ["K-", "pi+"], "PHSP", [y])), T("copydecay", T("label", Tok("MyD0")), T("label", Tok("D0"))),
                 T("cdecay", Tok("anti-D0")))
        one = {"bf": x, "model": "PHSP", "model_params": [y]}
        exp = {"D0": [dict(one, fs=["K-", "pi+"])], "MyD0": [dict(one, fs=["K-", "pi+"])], "anti-D0": [dict(one, fs=["K+", "pi-"])]}
    else:
        tree = T("start", T("model_alias", T("model_label", Tok("MA")), T("model", Tok("HELAMP"), T("model_options", T("value", Tok(z)), Tok("-dm")))),
                 T("define", Tok("dm"), Tok(y)),
                 block("B0", line(x, ["K+"], None), line(y, ["K-"], None)))
        for ln in tree.children[2].children[1:]:
            ln.children[-1] = T("model", T("model_label", Tok("MA")))
        exp = {"B0": [{"bf": x, "fs": ["K+"], "model": "HELAMP", "model_params": [z, -y]}, {"bf": y, "fs": ["K-"], "model": "HELAMP", "model_params": [z, -y]}]}
    _StubLark.tree = tree
    old = decmod.Lark
    decmod.Lark = _StubLark
    try:
        p = DecFileParser.from_string("given as a tree")
        with warnings.catch_warnings():
            warnings.simplefilter("ignore")
            p.parse()
    finally:
        decmod.Lark = old
    got = {m: [dict(p._decay_mode_details(dm)) for dm in p._find_decay_modes(m)] for m in p.list_decay_mother_names()}
    if got != exp:
        return fail(f"tables {got!r}, expected {exp!r} (x={x!r}, y={y!r}, z={z!r})")
    if p.number_of_decays != len(exp):
        return fail("number_of_decays")
    m0 = next(iter(exp))
    chain = p.build_decay_chains(m0, stable_particles=["K+", "K-", "pi+", "pi-", "pi0"])
    if [d["bf"] for d in chain[m0]] != [d["bf"] for d in exp[m0]]:
        return fail(f"chain of {m0}: {chain}")
    return True
