"""Engine B driver for the AmpGen side (C17): B1 with bounded decay nesting, B2, lexer lemmas, witness replay on the real parser."""
from __future__ import annotations

import multiprocessing as mp
import re
import time

from . import common, grammodel, larkcap, lexmodel, spec_ampgen
from .common import Obligation
from .decsweep import real_parse, render
from .rx import Unsupported

FUNCS = ["decaylanguage/data/ampgen.lark (rules and terminals, via the Lark object AmplitudeChain.read_ampgen builds)"]
UNROLL = {"decay": spec_ampgen.DEPTH, "subdecay": 99}
STACK_BOUND = 14


def canon(L):
    c = larkcap.canon_tokens(L)
    c.update({"LABEL": "K+", "SPIN": "P", "LINESHAPE": "GSpline.EFF", "SIGNED_NUMBER": "0.5", "INT": "1"})
    return c


def b1(report, L):
    base = dict(engine="smt", functions=FUNCS,
                bounds=f"all token sequences of every length with decay nesting <= {spec_ampgen.DEPTH} (the genuine recursion decay -> subdecay -> "
                       "decay is unrolled to that depth; deeper nesting is outside the claim)")
    try:
        G = grammodel.GramModel(L, unroll=UNROLL)
        S, lines = spec_ampgen.statement_language(G.A, spec_ampgen.DEPTH)
    except Unsupported as e:
        report.add(Obligation(name="B1 ampgen grammar -> regular expression", verdict=common.INCONCLUSIVE, detail=str(e), **base))
        return
    r1, r2 = grammodel.nonempty(G.regex), grammodel.nonempty(S)
    report.add(Obligation(name="B1 premise: both languages non-empty", verdict=common.DISCHARGED if (r1, r2) == ("sat", "sat") else common.HARNESS_ERROR,
                          queries=2, claim="vacuity guard", **base))
    cn = canon(L)
    for name, A, B, direction in (("B1 L(ampgen.lark) subset-of options language (same trees)", G.regex, S, "G-S"),
                                  ("B1 options language subset-of L(ampgen.lark) (same trees)", S, G.regex, "S-G")):
        r, w, dt = grammodel.included(A, B)
        ob = Obligation(name=name, verdict=common.INCONCLUSIVE, queries=1, solver_s=round(dt, 3), nontrivial=1,
                        claim="event type, parameter, constant, decay (polar / cartesian), invert and option lines: which tokens, in which "
                              "order, under which tree node; spin and lineshape tags; two-body sub-decays", **base)
        if r == "unsat":
            ob.verdict = common.DISCHARGED
            ob.sample = {"alphabet_letters": len(G.A.syms), "line_kinds": sorted(lines)}
        elif r == "sat":
            toks = G.tokens(w)
            text = render(toks, cn)
            tree, err = real_parse(L, text)
            ob.detail = {"direction": direction, "tokens": toks, "text": text, "real": err or "parses"}
            same = tree is not None and G.tree_word(tree) == G.project(w)
            if (direction == "G-S" and not same) or (direction == "S-G" and same):
                ob.verdict = common.HARNESS_ERROR
                ob.detail["why"] = "the real parser disagrees with the grammar model on this witness"
            else:
                ob.verdict = common.VIOLATION
                report.violation({"engine": "smt", "kind": "b1-ampgen", **ob.detail})
        else:
            ob.detail = f"z3 answered {r}"
        report.add(ob)


def b2(report, L):
    base = dict(engine="smt", bounds="all character strings of every length", functions=["ampgen.lark terminals LABEL, LINESHAPE, SPIN, SIGNED_NUMBER"])
    terms = {t.name: t.pattern.to_regexp() for t in L.terminals}
    try:
        obs = spec_ampgen.terminal_language_obligations(L)
    except (Unsupported, KeyError) as e:
        report.add(Obligation(name="B2 ampgen terminal languages", verdict=common.INCONCLUSIVE, detail=repr(e), **base))
        return
    for name, A, B, tn in obs:
        r, w, dt = grammodel.included(A, B)
        ob = Obligation(name="B2 " + name, verdict=common.INCONCLUSIVE, queries=1, solver_s=round(dt, 3), nontrivial=1, claim=name, **base)
        if r == "unsat":
            ob.verdict = common.DISCHARGED
        elif r == "sat":
            real = bool(re.fullmatch(terms[tn], w))
            ob.detail = {"witness": w, "terminal": tn, "real_fullmatch": real}
            ob.verdict = common.VIOLATION
            report.violation({"engine": "smt", "kind": "b2-ampgen", "obligation": name, "witness": w, "terminal": tn, "real_fullmatch": real})
        else:
            ob.detail = f"z3 answered {r}"
        report.add(ob)


def _worker(args):
    my, n = args
    import warnings
    warnings.simplefilter("ignore")
    import contextlib, io
    with contextlib.redirect_stdout(io.StringIO()):
        L = larkcap.capture_ampgen()
    pairs, nst = lexmodel.collect_pairs_bounded(L, canon(L), lambda st: len(st) <= STACK_BOUND)
    sw = lexmodel.Sweep(L, spec_ampgen, pairs)
    insts = sw.instances()
    mine = [x for i, x in enumerate(insts) if i % n == my]
    sw.instances = lambda: mine
    out = []
    try:
        for r in spec_ampgen.generate(sw):
            if r.q == -1 and my != 0:
                continue
            d = r.__dict__.copy()
            d["F"] = list(r.F)
            if r.verdict == "sat" and r.q >= 0 and r.witness is not None:
                d["real"] = lexmodel.real_next_token(L, r.q, r.witness)
            out.append(d)
    except Unsupported as e:
        out.append({"q": -2, "F": [], "T": "?", "desc": f"unsupported construct: {e}", "verdict": "unsupported", "known": [], "queries": 0,
                    "seconds": 0.0, "witness": None, "got": None, "prefix": (), "bound": 0})
    return {"results": out, "stacks": nst, "pairs": len(pairs), "instances": len(insts)}


def lemmas(report, workers=8):
    ctx = mp.get_context("fork")
    n = max(1, min(workers, 16))
    with ctx.Pool(n) as pool:
        parts = pool.map(_worker, [(i, n) for i in range(n)])
    results = [d for p in parts for d in p["results"]]
    meta = parts[0]
    by = {}
    for d in results:
        kind = ("keyword" if d["desc"].startswith("keyword") else "name" if d["desc"].startswith("name") else
                "number" if d["desc"].startswith("numeric") else "tag" if "tag" in d["desc"] else
                "newline" if d["desc"].startswith(("line end", "comment")) else "blank" if d["desc"].startswith("blanks") else
                "string" if d["desc"].startswith("string") else "other")
        by.setdefault(kind, []).append(d)
    for kind, ds in sorted(by.items()):
        ob = Obligation(name=f"ampgen lexer lemma {kind.upper()}: {len(ds)} (state, follow-set, terminal) instances", engine="smt",
                        verdict=common.DISCHARGED, queries=sum(d["queries"] for d in ds), solver_s=round(sum(d["seconds"] for d in ds), 2),
                        nontrivial=sum(1 for d in ds if d["verdict"] == "unsat"),
                        claim=f"in every reachable (LALR state, follow set) the real scanner order returns the intended {kind} token, whole",
                        bounds=f"lexemes up to {max((d.get('bound') or 1) for d in ds) - 1} characters followed by one character that cannot continue "
                               f"them; parser stacks up to depth {STACK_BOUND} ({meta['stacks']} stacks, {meta['pairs']} (state, follow set) pairs)",
                        functions=FUNCS, sample={"state": ds[0]["q"], "follow": ds[0]["F"][:6], "lemma": ds[0]["desc"]})
        problems = []
        for d in ds:
            v = d["verdict"]
            if v in ("unsat", "skipped"):
                if v == "skipped" and d["desc"] not in report.notes:
                    report.notes.append(d["desc"])
                continue
            if v == "sat":
                real = d.get("real")
                if d["q"] >= 0 and (tuple(real) if real else (None, 0)) != tuple(d["got"] or (None, 0)):
                    problems.append(("model-vs-real", d["witness"], d["got"], real))
                else:
                    problems.append(("violation", d["witness"], d["got"], d["desc"], d["q"], d["F"], d["T"], list(d["prefix"])))
            elif v == "vacuous":
                problems.append(("vacuous", d["desc"], d["q"]))
            else:
                problems.append(("inconclusive", v, d["desc"], d["q"]))
        if problems:
            ob.detail = problems[:5]
            kinds = {p[0] for p in problems}
            if "violation" in kinds:
                ob.verdict = common.VIOLATION
                for p in [p for p in problems if p[0] == "violation"][:2]:
                    report.violation({"engine": "smt", "kind": "ampgen-lexer-lemma", "lemma": kind, "witness": p[1], "lexed_as": p[2],
                                      "state": p[4], "follow": p[5], "intended": p[6], "prefix": p[7]})
            elif kinds & {"model-vs-real", "vacuous"}:
                ob.verdict = common.HARNESS_ERROR
            else:
                ob.verdict = common.INCONCLUSIVE
        report.add(ob)
