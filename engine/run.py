"""Entry point: python -m engine.run <ID> <quick|thorough>   |   python -m engine.run <ID> --replay <file>"""
from __future__ import annotations

import importlib
import json
import os
import sys
import traceback

from . import common


def main(argv):
    if len(argv) < 2:
        print("usage: check <ID> <quick|thorough> | check <ID> --replay <file>")
        return 2
    prop = argv[0].upper()
    sys.path.insert(0, str(common.VERIF))
    if argv[1] == "--replay":
        from . import replaytool
        return replaytool.replay_file(prop, argv[2])
    tier = argv[1]
    os.environ["VERIF_TIER"] = tier
    mod = importlib.import_module(f"checks.{prop.lower()}")
    report = common.Report(prop, tier)
    report.notes.append(f"/repo HEAD {common.repo_head()}")
    try:
        mod.run(report, tier)
    except Exception:
        tb = traceback.format_exc()
        print(tb)
        report.add(common.Obligation(name="check driver", engine="driver", verdict=common.HARNESS_ERROR, detail=tb[-1500:]))
    return report.finish()


if __name__ == "__main__":
    sys.exit(main(sys.argv[1:]))
