"""Replays a stored counter-example (``/verif/replays/<ID>-<hash>.json``) against the real code in /repo."""
from __future__ import annotations

import json

from . import common


def replay_file(prop: str, path: str) -> int:
    payload = json.loads(open(path).read())
    print(json.dumps({k: v for k, v in payload.items() if k != "replay"}, indent=1)[:3000])
    if payload.get("engine") == "crosshair":
        from . import chrun
        r = chrun.replay(payload["module"], payload["body"], payload["args"])
        print("replay on current /repo:", r)
        return common.EXIT_VIOLATION if r.get("ok") is False else common.EXIT_OK
    if payload.get("engine") == "smt":
        from . import smtreplay
        return smtreplay.replay(payload)
    print("unknown replay kind")
    return common.EXIT_HARNESS
