"""Specification side of Engine B for AmpGen option files - written from the text of C17 and AmpGen's option syntax,
not from ampgen.lark: character classes and lexer lemmas, statement language (B1, decay nesting bounded), terminal languages (B2)."""
from __future__ import annotations

import z3

from .lexmodel import LemmaResult, LexModel, Sweep
from .rx import Matcher, SymStr, Unsupported, to_re
from .spec_dec import INT_SPEC, NUM_SPEC, _check_any, _eq_word, _full_match

# AmpGen particle / parameter names: letters, digits, _ / ( ) ' * + - and the two-character unit '::'
NAME_CHARS = "abcdefghijklmnopqrstuvwxyzABCDEFGHIJKLMNOPQRSTUVWXYZ0123456789_/()'*+-"
TAG_CHARS = "abcdefghijklmnopqrstuvwxyzABCDEFGHIJKLMNOPQRSTUVWXYZ0123456789_/."        # lineshape tags: kMatrix.pole.0, GSpline.EFF
KEYWORDS = {"EVENTTYPE": "EventType", "NEVENTS": "nEvents", "OUTPUT": "Output", "__ANON_0": "FastCoherentSum::UseCartesian"}
PUNCT = {"EQUAL": "=", "SEMICOLON": ";", "LSQB": "[", "RSQB": "]", "LBRACE": "{", "RBRACE": "}", "COMMA": ","}
import os as _os

DEPTH = 4 if _os.environ.get("VERIF_TIER") == "thorough" else 3
NAME_BOUND = 26 if _os.environ.get("VERIF_TIER") == "thorough" else 20


def in_set(ch, chars):
    return z3.Or(*[ch == ord(c) for c in chars])


def _name_premise(lm: LexModel, wl):
    """s = w d? ; w is a sequence of name characters and '::' units; d (if present) is neither a name character nor ':'"""
    s = lm.s
    cons = [wl >= 1, wl <= s.lmax - 1, z3.Or(s.n == wl, s.n == wl + 1)]
    # colon[i]: position i holds ':' ; colons come in pairs: use a parity chain
    par = [z3.Bool(f"par_{id(lm)}_{i}") for i in range(s.lmax + 1)]      # par[i]: position i is the second colon of a pair
    cons.append(z3.Not(par[0]))
    for i in range(s.lmax):
        is_colon = s.c[i] == 58
        inside = i < wl
        cons.append(z3.Implies(inside, z3.Or(in_set(s.c[i], NAME_CHARS), is_colon)))
        # a colon at i is the second of a pair iff the previous one was a first colon
        prev_first = z3.And(s.c[i - 1] == 58, z3.Not(par[i - 1]), i - 1 < wl) if i >= 1 else z3.BoolVal(False)
        cons.append(par[i] == z3.And(inside, is_colon, prev_first))
        # a first colon must be followed (inside the word) by a second one
        nxt_colon = z3.And(i + 1 < wl, s.c[i + 1] == 58) if i + 1 < s.lmax else z3.BoolVal(False)
        cons.append(z3.Implies(z3.And(inside, is_colon, z3.Not(par[i])), nxt_colon))
        cons.append(z3.Implies(z3.And(i == wl, s.n > wl), z3.And(z3.Not(in_set(s.c[i], NAME_CHARS)), s.c[i] != 58)))
    return cons


def _tag_premise(lm: LexModel, wl, lo=2):
    s = lm.s
    cons = [wl >= lo, wl <= s.lmax - 1, z3.Or(s.n == wl, s.n == wl + 1), s.c[0] != 46]
    for i in range(s.lmax):
        cons.append(z3.Implies(i < wl, in_set(s.c[i], TAG_CHARS)))
        cons.append(z3.Implies(z3.And(i == wl, s.n > wl), z3.Not(in_set(s.c[i], TAG_CHARS))))
    return cons


def generate(sweep: Sweep, parts=None):
    want = lambda k: parts is None or k in parts
    for name, lit in KEYWORDS.items():
        real = sweep.str_terms.get(name)
        if real is not None and real != lit:
            yield LemmaResult(q=-1, F=(), T=name, desc=f"keyword literal of {name} is {real!r}, the options language says {lit!r}",
                              verdict="sat", witness=real, got=(name, len(real)))
    for (q, F, prefix, terms, cbs) in sweep.instances():
        names = [n for n, _ in terms]
        folded = {lit: (host, tname) for host, d in cbs.items() for lit, tname in d.items()}
        try:
            sweep.model(terms, 6)
        except Unsupported as e:
            yield LemmaResult(q=q, F=tuple(sorted(F)), T="*", desc=f"context not encodable ({e}): covered at grammar level only",
                              verdict="skipped", prefix=prefix)
            continue
        for T in sorted(F):
            if T == "$END":
                continue
            host = T if T in names else next((h for lit, (h, tn) in folded.items() if tn == T), T)
            if T in PUNCT or T in sweep.str_terms:
                if not want("keyword"):
                    continue
                w = PUNCT.get(T) or sweep.str_terms[T]
                lm = sweep.model(terms, len(w) + 2)
                s = lm.s
                if T in PUNCT:
                    prem = s.fix_prefix(w) + [s.n >= len(w)]
                else:
                    prem = s.fix_prefix(w) + [z3.Or(s.n == len(w), z3.And(s.n > len(w), z3.Not(in_set(s.c[len(w)], NAME_CHARS)), s.c[len(w)] != 58))]
                r = sweep.check(q, F, prefix, terms, cbs, T, f"keyword {w!r}", lm, prem, host, len(w))
                if r.verdict == "unsat" and host != T and folded.get(w, (None, None))[1] != T:
                    r.verdict, r.witness, r.got = "sat", w, (host, len(w))
                yield r
            elif T == "LABEL":
                if not want("word"):
                    continue
                lm = sweep.model(terms, NAME_BOUND)  # names up to NAME_BOUND - 1 characters
                s = lm.s
                wl = z3.Int(f"awl_{id(lm)}")
                prem = _name_premise(lm, wl)
                for other in F:
                    if other in sweep.str_terms and other not in PUNCT and len(sweep.str_terms[other]) < s.lmax:
                        prem.append(z3.Not(_eq_word(s, wl, sweep.str_terms[other])))
                known = []
                for lit, (h, tn) in folded.items():
                    if h == "LABEL" and tn not in F and len(lit) < s.lmax:
                        prem.append(z3.Not(_eq_word(s, wl, lit)))       # a name equal to a keyword that is not legal here: outside the claim
                # particle and parameter names do not start with a numeric literal (assumption of the options language; a name such as
                # '2K-' in an event type would be lexed as a number in the LALR-merged states - it names no particle anyway)
                pok, pend = Matcher(s).first_end(NUM_SPEC)
                prem.append(z3.Not(z3.And(pok, pend >= 1)))
                if "SIGNED_NUMBER" in F:
                    prem.append(z3.Not(_full_match(s, NUM_SPEC, wl)))
                yield sweep.check(q, F, prefix, terms, cbs, T, "name class", lm, prem, host, wl, known)
            elif T in ("SIGNED_NUMBER", "INT"):
                if not want("number"):
                    continue
                lm = sweep.model(terms, 12)
                s = lm.s
                wl = z3.Int(f"anl_{id(lm)}")
                prem = [wl >= 1, wl <= s.lmax - 1, z3.Or(s.n == wl, s.n == wl + 1)]
                for i in range(s.lmax):
                    prem.append(z3.Implies(z3.And(i == wl, s.n > wl), z3.And(z3.Not(in_set(s.c[i], NAME_CHARS + ".")), s.c[i] != 58)))
                prem.append(_full_match(s, NUM_SPEC if T == "SIGNED_NUMBER" else INT_SPEC, wl))
                yield sweep.check(q, F, prefix, terms, cbs, T, "numeric literal class", lm, prem, host, wl)
            elif T == "SPIN":
                if not want("tag"):
                    continue
                lm = sweep.model(terms, 4)
                s = lm.s
                for w in "SPD":
                    prem = s.fix_prefix(w) + [z3.Or(s.n == 1, z3.And(s.n > 1, z3.Not(in_set(s.c[1], TAG_CHARS))))]
                    yield sweep.check(q, F, prefix, terms, cbs, T, f"spin tag {w!r}", lm, prem, host, 1)
            elif T == "LINESHAPE":
                if not want("tag"):
                    continue
                lm = sweep.model(terms, 16)
                wl = z3.Int(f"atl_{id(lm)}")
                yield sweep.check(q, F, prefix, terms, cbs, T, "lineshape tag class (two or more tag characters)", lm, _tag_premise(lm, wl), host, wl)
            elif T == "_NEWLINE":
                if not want("newline"):
                    continue
                lm = sweep.model(terms, 8)
                s = lm.s
                wl = z3.Int(f"anw_{id(lm)}")
                stop = lambda ch: z3.And(ch != 32, ch != 9, ch != 10, ch != 13, ch != 35)
                for cr in (0, 1):
                    prem = [wl >= 1 + cr, wl <= 7, z3.Or(s.n == wl, s.n == wl + 1), s.c[cr] == 10] + ([s.c[0] == 13] if cr else [])
                    for i in range(1 + cr, 8):
                        prem.append(z3.Implies(i < wl, z3.Or(s.c[i] == 32, s.c[i] == 9)))
                        prem.append(z3.Implies(z3.And(i == wl, s.n > wl), stop(s.c[i])))
                    yield sweep.check(q, F, prefix, terms, cbs, T, "line end " + ("CRLF" if cr else "LF") + " + indentation", lm, prem, host, wl)
                # a comment up to the end of the text
                prem = [wl >= 1, wl <= 7, s.n == wl, s.c[0] == 35] + [z3.Implies(i < wl, s.c[i] != 10) for i in range(1, 8)]
                ok_types = [lm.names.index(n) for n in ("_NEWLINE", "COMMENT") if n in lm.names]
                yield _check_any(sweep, q, F, prefix, terms, cbs, "COMMENT", "comment up to the end", lm, prem, ok_types, wl)
            elif T == "ESCAPED_STRING":
                if not want("string"):
                    continue
                # a quoted file name: '"' + characters other than quote, backslash and line end + '"', followed by anything
                lm = sweep.model(terms, 12)
                s = lm.s
                wl = z3.Int(f"asl_{id(lm)}")
                prem = [wl >= 2, wl <= 11, s.n >= wl, s.c[0] == 34]
                for i in range(1, 12):
                    prem.append(z3.Implies(i == wl - 1, s.c[i] == 34))
                    prem.append(z3.Implies(z3.And(i >= 1, i < wl - 1), z3.And(s.c[i] != 34, s.c[i] != 92, s.c[i] != 10)))
                yield sweep.check(q, F, prefix, terms, cbs, T, "string literal class (quoted, no quote / backslash / line end inside)", lm, prem, host, wl)
            else:
                yield LemmaResult(q=q, F=tuple(sorted(F)), T=T, desc="terminal without an intended class", verdict="unsupported", prefix=prefix)
        if want("blank") and "WS_INLINE" in names:
            lm = sweep.model(terms, 6)
            s = lm.s
            wl = z3.Int(f"aws_{id(lm)}")
            prem = [wl >= 1, wl <= 5, s.n == wl + 1]
            for i in range(6):
                prem.append(z3.Implies(i < wl, z3.Or(s.c[i] == 32, s.c[i] == 9)))
                prem.append(z3.Implies(i == wl, z3.And(s.c[i] != 32, s.c[i] != 9)))
            yield sweep.check(q, F, prefix, terms, cbs, "WS_INLINE", "blanks are one ignored token", lm, prem, "WS_INLINE", wl)


# ---- statement level ----------------------------------------------------------------------------------------------------
def statement_language(A, depth=DEPTH):
    from .grammodel import alt, cat

    def K(t):
        return A.lit(("tok", t, "keep"))

    def D(t):
        return A.lit(("tok", t, "drop"))

    def N(label, *body):
        return z3.Concat(A.lit(("open", label)), cat(body), A.lit(("close",)))

    particle = N("particle", K("LABEL"))
    spin = N("spinfactor", K("SPIN"))
    ls = N("lineshape", K("LINESHAPE"))
    # [S] | [S;shape] | [shape] | [shape;shape]
    decaytype = N("decaytype", D("LSQB"), alt([spin, ls]), z3.Option(z3.Concat(D("SEMICOLON"), ls)), D("RSQB"))

    def decay(d):
        if d == 0:
            return N("decay", particle)
        sub = N("subdecay", D("LBRACE"), decay(d - 1), D("COMMA"), decay(d - 1), D("RBRACE"))
        return N("decay", particle, z3.Option(z3.Concat(z3.Option(decaytype), sub)))

    fix = N("checkfixed", K("SIGNED_NUMBER"))
    fixed_cplx = N("fixed_cplx", fix, K("SIGNED_NUMBER"), K("SIGNED_NUMBER"))
    dk = decay(depth)
    lines = {
        "event_type": N("event_type", D("EVENTTYPE"), particle, z3.Plus(particle)),
        "variable": N("variable", particle, fix, K("SIGNED_NUMBER"), K("SIGNED_NUMBER")),
        "constant": N("constant", particle, K("SIGNED_NUMBER")),
        "cplx_decay_line": N("cplx_decay_line", dk, fixed_cplx, fixed_cplx),
        "cart_decay_line": N("cart_decay_line", dk, fixed_cplx),
        "invert_line": N("invert_line", particle, D("EQUAL"), particle),
        "options": N("options", alt([N("fast_coherent_sum", D("__ANON_0"), K("INT")), N("output", D("OUTPUT"), K("ESCAPED_STRING")),
                                     N("nevents", D("NEVENTS"), K("INT"))])),
    }
    start = N("start", z3.Option(D("_NEWLINE")), z3.Plus(z3.Concat(alt(list(lines.values())), D("_NEWLINE"))))
    return start, lines


def terminal_language_obligations(L):
    terms = {t.name: t.pattern.to_regexp() for t in L.terminals}
    out = []
    unit = z3.Union(*([z3.Re(z3.StringVal(c)) for c in NAME_CHARS] + [z3.Re(z3.StringVal("::"))]))
    lab = to_re(terms["LABEL"])
    out.append(("L(LABEL) subset-of (name character | '::')+", lab, z3.Plus(unit), "LABEL"))
    out.append(("(name character | '::')+ subset-of L(LABEL)", z3.Plus(unit), lab, "LABEL"))
    tag = z3.Concat(z3.Union(*[z3.Re(z3.StringVal(c)) for c in TAG_CHARS if c != "."]), z3.Plus(z3.Union(*[z3.Re(z3.StringVal(c)) for c in TAG_CHARS])))
    lsh = to_re(terms["LINESHAPE"])
    out.append(("L(LINESHAPE) subset-of tag words", lsh, tag, "LINESHAPE"))
    out.append(("tag words subset-of L(LINESHAPE)", tag, lsh, "LINESHAPE"))
    num = to_re(terms["SIGNED_NUMBER"])
    out.append(("L(SIGNED_NUMBER) = numeric literal forms (1)", num, to_re(NUM_SPEC), "SIGNED_NUMBER"))
    out.append(("L(SIGNED_NUMBER) = numeric literal forms (2)", to_re(NUM_SPEC), num, "SIGNED_NUMBER"))
    out.append(("L(SPIN) = {S, P, D} (1)", to_re(terms["SPIN"]), to_re("[SPD]"), "SPIN"))
    out.append(("L(SPIN) = {S, P, D} (2)", to_re("[SPD]"), to_re(terms["SPIN"]), "SPIN"))
    return out
