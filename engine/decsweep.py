"""Engine B driver for the .dec side: B1 (grammar == statement language, closures), B2 (terminal languages),
lexer lemmas (parallel over lexer contexts), translator validation, witness replay on the real objects."""
from __future__ import annotations

import multiprocessing as mp
import os
import time
import warnings
from pathlib import Path

from . import common, grammodel, larkcap, lexmodel, spec_dec
from .common import Obligation
from .rx import Unsupported

FUNCS_GRAMMAR = ["decaylanguage/data/decfile.lark (rules, via the Lark object DecFileParser.parse() builds)",
                 "decaylanguage.dec.dec.DecFileParser._generate_edit_terminals_callback (MODEL_NAME terminal)",
                 "decaylanguage.dec.dec.DecFileParser.load_additional_decay_models", "decaylanguage.dec.enums.known_decay_models"]


def model_names(extra=()):
    from decaylanguage.dec.enums import known_decay_models
    return tuple(known_decay_models) + tuple(extra)


# ---------------------------------------------------------------------------------------------- rendering / replay

def render(tokens, canon, lexemes=None):
    """token-type sequence -> text with one canonical lexeme per type (blank separated, line ends as such)"""
    out = []
    for i, t in enumerate(tokens):
        lx = (lexemes or {}).get(i, canon[t])
        if t == "_NEWLINE":
            out.append("\n")
        else:
            out.append(lx + " ")
    return "".join(out)


def real_parse(L, text):
    try:
        return L.parse(text), None
    except Exception as e:                      # lark UnexpectedInput etc.
        return None, f"{type(e).__name__}: {str(e)[:200]}"


def public_parse(text, extra_models=()):
    """the text through the real DecFileParser; returns a snapshot of the decay tables or the exception"""
    from decaylanguage.dec.dec import DecFileParser
    p = DecFileParser.from_string(text)
    if extra_models:
        p.load_additional_decay_models(*extra_models)
    try:
        with warnings.catch_warnings():
            warnings.simplefilter("ignore")
            p.parse()
        return {"ok": True, "tables": {m: [dict(p._decay_mode_details(dm)) for dm in p._find_decay_modes(m)]
                                       for m in p.list_decay_mother_names()}}
    except Exception as e:
        return {"ok": False, "exc": f"{type(e).__name__}: {str(e)[:160]}"}


# canonical public-level probes of the known lexical classes: (text, extra models, predicate on public_parse result)
def _probe_f14(fid):
    P = {
        "F14a": ("Decay A\n1.0 2pi PHSP;\nEnddecay\n", (), lambda r: not r["ok"]),
        "F14b": ("Decay A\n1.0 B C LbAmpGen 2body_v1;\nEnddecay\n", (),
                 lambda r: r["ok"] and r["tables"]["A"][0]["model_params"] != ["2body_v1"]),
        "F14c": ("Decay A\n1.0 B C HELAMP 1.0 PHSP;\nEnddecay\n", (), lambda r: not r["ok"]),
        "F14d": ("Decay A\n1.0 B C PHSP-X;\nEnddecay\n", (), lambda r: r["ok"] and r["tables"]["A"][0]["model"] == "PHSP"),
        "F14e": ("Decay A\n1.0 B C MY-;\nEnddecay\n", ("MY-",), lambda r: not (r["ok"] and r["tables"]["A"][0]["model"] == "MY-")),
    }
    text, extra, pred = P[fid]
    r = public_parse(text, extra)
    return bool(pred(r)), text, r


# ---------------------------------------------------------------------------------------------- B1 / B2

def b1(report, L, which=("equiv", "closure", "vacuity"), prop_note=""):
    t0 = time.time()
    try:
        G = grammodel.GramModel(L)
        S, stm = spec_dec.statement_language(G.A)
    except Unsupported as e:
        report.add(Obligation(name="B1 grammar -> regular expression", engine="smt", verdict=common.INCONCLUSIVE, detail=str(e)))
        return None
    canon = larkcap.canon_tokens(L)
    base = dict(engine="smt", bounds="all token sequences of every length (regular-language inclusion decided by z3)",
                functions=FUNCS_GRAMMAR[:1])
    if "vacuity" in which:
        r1, r2 = grammodel.nonempty(G.regex), grammodel.nonempty(S)
        report.add(Obligation(name="B1 premise: grammar language and specification language are non-empty",
                              verdict=common.DISCHARGED if (r1, r2) == ("sat", "sat") else common.HARNESS_ERROR,
                              queries=2, detail=(r1, r2), claim="vacuity guard", **base))
    if "equiv" in which:
        for name, A, B, direction in (("B1 L(decfile.lark) subset-of statement language (same trees)", G.regex, S, "G-S"),
                                      ("B1 statement language subset-of L(decfile.lark) (same trees)", S, G.regex, "S-G")):
            r, w, dt = grammodel.included(A, B)
            ob = Obligation(name=name, verdict=common.INCONCLUSIVE, queries=1, solver_s=round(dt, 3), nontrivial=1,
                            claim="every token sequence the grammar accepts is a sequence of the statement language and is given "
                                  "the tree the specification describes, and conversely" + prop_note, **base)
            if r == "unsat":
                ob.verdict = common.DISCHARGED
                ob.sample = {"alphabet_letters": len(G.A.syms), "statements": sorted(stm)}
            elif r == "sat":
                _replay_b1(report, ob, L, G, S, w, canon, direction)
            else:
                ob.detail = f"z3 answered {r}"
            report.add(ob)
    if "closure" in which:
        G2 = grammodel.GramModel(L, alphabet=G.A, plus={"_NEWLINE", "_SEMICOLON"})
        for name, A, B in (("B1-closure L(G) subset-of L(G[_NEWLINE->_NEWLINE+, _SEMICOLON->_SEMICOLON+])", G.regex, G2.regex),
                           ("B1-closure L(G[_NEWLINE->_NEWLINE+, _SEMICOLON->_SEMICOLON+]) subset-of L(G)", G2.regex, G.regex)):
            r, w, dt = grammodel.included(A, B)
            ob = Obligation(name=name, verdict=common.INCONCLUSIVE, queries=1, solver_s=round(dt, 3), nontrivial=1,
                            claim="repeating a line end / comment line / terminating semicolon anywhere one is allowed neither "
                                  "leaves the language nor changes the tree (kept tokens and brackets identical)", **base)
            if r == "unsat":
                ob.verdict = common.DISCHARGED
            elif r == "sat":
                toks = G.tokens(w)
                text = render(toks, canon)
                tree, err = real_parse(L, text)
                ob.detail = {"tokens": toks, "text": text, "real": err or "parses"}
                ob.verdict = common.VIOLATION
                report.violation({"engine": "smt", "kind": "b1-closure", "text": text, "tokens": toks, "real": err or "parses",
                                  "note": "blank-line / repeated-semicolon closure of the grammar fails for this token sequence"})
            else:
                ob.detail = f"z3 answered {r}"
            report.add(ob)
    return G, S


def _replay_b1(report, ob, L, G, S, w, canon, direction):
    toks = G.tokens(w)
    text = render(toks, canon)
    tree, err = real_parse(L, text)
    decoded = [k[1] if k[0] != "close" else ")" for k in G.A.decode(w)]
    ob.detail = {"direction": direction, "tokens": toks, "text": text, "witness": decoded}
    if direction == "G-S":
        if tree is None:
            ob.verdict = common.HARNESS_ERROR
            ob.detail["why"] = f"model says the grammar accepts this sequence, the real parser says {err}"
            return
        if G.tree_word(tree) != G.project(w):
            ob.verdict = common.HARNESS_ERROR
            ob.detail["why"] = "real tree differs from the tree the model predicts"
            return
        ob.verdict = common.VIOLATION
        ob.detail["why"] = "the real parser accepts this text / builds this tree, the statement language does not contain it"
    else:
        if tree is not None and G.tree_word(tree) == G.project(w):
            ob.verdict = common.HARNESS_ERROR
            ob.detail["why"] = "model says the grammar does not produce this tree, the real parser does"
            return
        ob.verdict = common.VIOLATION
        ob.detail["why"] = (f"text of the statement language is rejected: {err}" if tree is None
                            else "text of the statement language gets a different tree")
    report.violation({"engine": "smt", "kind": "b1", "text": text, **ob.detail})


def b2(report, L):
    base = dict(engine="smt", bounds="all character strings of every length", functions=["decfile.lark terminals LABEL, SIGNED_NUMBER, INT"])
    try:
        obs = spec_dec.terminal_language_obligations(L)
    except (Unsupported, KeyError) as e:
        report.add(Obligation(name="B2 terminal languages", verdict=common.INCONCLUSIVE, detail=repr(e), **base))
        return
    for name, A, B in obs:
        r, w, dt = grammodel.included(A, B)
        ob = Obligation(name="B2 " + name, verdict=common.INCONCLUSIVE, queries=1, solver_s=round(dt, 3), nontrivial=1,
                        claim=name, **base)
        if r == "unsat":
            ob.verdict = common.DISCHARGED
        elif r == "sat":
            # replay: the real compiled terminal on the witness
            import re
            terms = {t.name: t.pattern.to_regexp() for t in L.terminals}
            tn = "LABEL" if "LABEL" in name else ("INT" if "INT" in name else "SIGNED_NUMBER")
            real = bool(re.fullmatch(terms[tn], w))
            ob.detail = {"witness": w, "terminal": tn, "real_fullmatch": real}
            ob.verdict = common.VIOLATION
            report.violation({"engine": "smt", "kind": "b2", "obligation": name, "witness": w, "terminal": tn,
                              "real_terminal_regexp": terms[tn], "real_fullmatch": real})
        else:
            ob.detail = f"z3 answered {r}"
        report.add(ob)


# ---------------------------------------------------------------------------------------------- lemma sweep

def _sweep_worker(args):
    extra, kinds, my, n_workers = args
    import warnings as _w
    _w.simplefilter("ignore")
    L = larkcap.capture_dec(tuple(extra))
    pairs, nst = lexmodel.collect_pairs(L)
    sw = lexmodel.Sweep(L, spec_dec, pairs)
    insts = sw.instances()
    mine = [inst for i, inst in enumerate(insts) if i % n_workers == my]
    sw.instances = lambda: mine
    out = []
    try:
        for r in spec_dec.generate(sw, model_names(extra), set(kinds) if kinds else None, registered=tuple(extra)):
            if r.q == -1 and my != 0:
                continue
            # replay witnesses on the real scanner of that state
            for lst in ([(None, r.witness, r.got)] if r.verdict == "sat" and r.q >= 0 else []) + [k for k in r.known]:
                pass
            d = r.__dict__.copy()
            d["F"] = list(r.F)
            d["real_known"] = [(fid, w, got, lexmodel.real_next_token(L, r.q, w)) for fid, w, got in r.known]
            if r.verdict == "sat" and r.q >= 0 and r.witness is not None:
                d["real"] = lexmodel.real_next_token(L, r.q, r.witness)
            out.append(d)
    except Unsupported as e:
        out.append({"q": -2, "F": [], "T": "?", "desc": f"unsupported construct: {e}", "verdict": "unsupported", "known": [],
                    "real_known": [], "queries": 0, "seconds": 0.0, "witness": None, "got": None, "prefix": (), "bound": 0})
    return {"results": out, "stacks": nst, "pairs": len(pairs), "instances": len(insts)}


KIND_OF = {"word class": "word", "numeric literal class": "number", "blanks are one ignored token": "blank",
           "comment up to the line end": "comment"}


def _kind(d):
    if d["desc"].startswith("keyword"):
        return "keyword"
    if d["desc"].startswith("model "):
        return "model"
    if d["desc"].startswith("line end"):
        return "newline"
    return KIND_OF.get(d["desc"], "other")


def lemmas(report, extra=(), kinds=None, workers=16, label="", known_ok=("F14a", "F14b", "F14c", "F14d", "F14e")):
    """Run the lexer-lemma sweep for the lexer built with ``extra`` registered models; one obligation per lemma kind."""
    t0 = time.time()
    ctx = mp.get_context("fork")
    n = max(1, min(workers, 16))
    with ctx.Pool(n) as pool:
        parts = pool.map(_sweep_worker, [(tuple(extra), tuple(kinds) if kinds else None, i, n) for i in range(n)])
    results = [d for p in parts for d in p["results"]]
    meta = parts[0]
    by = {}
    for d in results:
        by.setdefault(_kind(d), []).append(d)
    listed = {f["id"] for f in common.load_findings() if f["status"] == "known"}
    tag = f" [{label}]" if label else ""
    for kind, ds in sorted(by.items()):
        q = sum(d["queries"] for d in ds)
        secs = sum(d["seconds"] for d in ds)
        bound = max((d.get("bound") or 0) for d in ds)
        ob = Obligation(
            name=f"lexer lemma {kind.upper()}{tag}: {len(ds)} (state, follow-set, terminal) instances", engine="smt",
            verdict=common.DISCHARGED, queries=q, solver_s=round(secs, 2), nontrivial=len(ds),
            claim=f"in every reachable (LALR state, follow set) the real scanner order returns the intended {kind} token, whole",
            bounds=f"lexemes up to {bound - 1} characters followed by any one character that cannot continue them (or end of text); "
                   f"{meta['stacks']} parser stacks, {meta['pairs']} (state, follow set) pairs, {meta['instances']} distinct lexer contexts"
                   + (f"; registered models {list(extra)}" if extra else ""),
            functions=FUNCS_GRAMMAR,
            sample={"state": ds[0]["q"], "follow": ds[0]["F"][:8], "terminal": ds[0]["T"], "lemma": ds[0]["desc"],
                    "prefix": list(ds[0]["prefix"])[-6:]})
        problems = []
        for d in ds:
            for fid, w, got, real in d["real_known"]:
                real_t = tuple(real) if real else (None, 0)
                if real_t != tuple(got):
                    problems.append(("model-vs-real", fid, w, got, real))
                    continue
                if fid in listed and fid in known_ok:
                    ok, text, r = _probe_f14(fid)
                    if ok:
                        report.known(f"lexical class still present: state {d['q']} witness {w!r} lexed as {got}; canonical input {text!r}", fid=fid)
                    else:
                        problems.append(("known class found by the solver but the canonical input no longer reproduces", fid, w, got, r))
                else:
                    problems.append(("violation", fid, w, got, real))
            v = d["verdict"]
            if v == "unsat":
                continue
            if v == "sat":
                real = d.get("real")
                if d["q"] >= 0 and (tuple(real) if real else (None, 0)) != tuple(d["got"] or (None, 0)):
                    problems.append(("model-vs-real", None, d["witness"], d["got"], real))
                else:
                    problems.append(("violation", None, d["witness"], d["got"], d["desc"], d["q"], d["F"], d["T"], list(d["prefix"])))
            elif v == "vacuous":
                problems.append(("vacuous", d["desc"], d["q"], d["T"]))
            else:
                problems.append(("inconclusive", v, d["desc"], d["q"], d["T"]))
        if problems:
            kinds_found = {p[0] for p in problems}
            ob.detail = problems[:6]
            if "violation" in kinds_found:
                ob.verdict = common.VIOLATION
                for p in [p for p in problems if p[0] == "violation"][:3]:
                    pl = {"engine": "smt", "kind": "lexer-lemma", "lemma": kind, "witness": p[2], "lexed_as": p[3], "extra_models": list(extra)}
                    if len(p) > 5:
                        toks = list(p[8])
                        L = larkcap.capture_dec(tuple(extra))
                        canon = larkcap.canon_tokens(L)
                        pl.update(state=p[5], follow=p[6], intended=p[7], prefix=toks, text=render(toks, canon) + (p[2] or ""))
                        pl["public"] = public_parse(pl["text"] + "\n", tuple(extra))
                    report.violation(pl)
            elif kinds_found & {"model-vs-real", "vacuous"} or any("canonical input" in p[0] for p in problems):
                ob.verdict = common.HARNESS_ERROR
            else:
                ob.verdict = common.INCONCLUSIVE
        report.add(ob)
    return results


# ---------------------------------------------------------------------------------------------- translator validation

def validate_translator(report, L, files=None, max_files=40):
    """Sanity (not evidence): every shipped .dec file is parsed by the real parser; its tree word must be in the projected
    specification language and in the projected grammar model."""
    import z3
    A = grammodel.Alphabet(erase_dropped=True)
    try:
        Gp = grammodel.GramModel(L, alphabet=A)
        Sp, _ = spec_dec.statement_language(A)
    except Unsupported as e:
        report.notes.append(f"translator validation skipped: {e}")
        return 0
    files = files or sorted((common.REPO / "tests" / "data").glob("*.dec"))
    n = bad = 0
    t0 = time.time()
    for f in files[:max_files]:
        try:
            text = Path(f).read_text()
        except Exception:
            continue
        if len(text) > 60_000:
            text = text[:0]      # the two master files are validated in the thorough tier only (statement by statement)
            continue
        tree, err = real_parse(L, text if text.endswith("\n") else text + "\n")
        if tree is None:
            continue
        w = Gp.tree_word(tree)
        n += 1
        if grammodel.member(w, Sp) != "sat" or grammodel.member(w, Gp.regex) != "sat":
            bad += 1
            report.notes.append(f"translator validation: tree of {Path(f).name} is not in the model language")
    report.extra["traces_validated_against_impl"] = n
    report.notes.append(f"translator validation: {n} shipped .dec files, {bad} outside the model language, {time.time() - t0:.1f}s")
    if bad:
        report.add(Obligation(name="translator validation", engine="smt", verdict=common.HARNESS_ERROR,
                              detail=f"{bad} real parse trees are not in the model language"))
    return n
