"""Engine B, lexer side: Lark's contextual lexer as z3 terms, and the lexer lemmas.

B4  per LALR state q: the ordered terminals of the real scanner and the unless-callbacks.
B5  the pairs (q, F) that occur: F = terminals the parser really accepts next (walk of Lark's InteractiveParser).
Lemma(q, F, T): for every lexeme w of the class *intended* for T (|w| <= bound) followed by a character that
    cannot continue it (or by the end of the text), the model of "next token in state q" returns (T, w).

A satisfiable negation is decoded into a concrete string and replayed on the *real* scanner object of state q;
only a reproduced difference counts.  Known-finding classes are not assumed away up front: the solver first has
to find a member, the member is replayed, the class is then excluded by a constraint and the search goes on.
"""
from __future__ import annotations

import collections
import time
from dataclasses import dataclass, field

import z3
from lark import Token

from . import larkcap
from .rx import Matcher, SymStr, Unsupported, is_word

SOLVER_TIMEOUT_MS = 120_000


# ------------------------------------------------------------------------------------------------ B4 / B5

def ctx_of(L, q):
    lx = L.parser.lexer.lexers[q]
    terms = tuple((t.name, t.pattern.to_regexp()) for t in lx.scanner.terminals)
    cbs = {}
    for host, cb in lx.callback.items():
        sc = getattr(cb, "scanner", None)
        if sc is None:
            raise Unsupported(f"callback on {host} is not an unless-callback")
        cbs[host] = {t.pattern.value: t.name for t in sc.terminals}
    return terms, cbs


def collect_pairs(L, canon=None, max_stacks=200_000):
    """{(q, F): token-type prefix reaching it}.  Decides nothing: it only enumerates lemma instances."""
    canon = canon or larkcap.canon_tokens(L)
    ip0 = L.parse_interactive("")
    seen = {}
    queue = collections.deque([(ip0, ())])
    pairs = {}
    while queue:
        ip, prefix = queue.popleft()
        key = tuple(ip.parser_state.state_stack)
        if key in seen:
            continue
        seen[key] = prefix
        if len(seen) > max_stacks:
            raise Unsupported("parser stack walk does not reach a fix-point within the bound (non-regular grammar?)")
        F = frozenset(ip.accepts())
        pairs.setdefault((ip.parser_state.position, F), prefix)
        for T in sorted(F):
            if T == "$END":
                continue
            ip2 = ip.copy()
            ip2.feed_token(Token(T, canon[T]))
            queue.append((ip2, prefix + (T,)))
    return pairs, len(seen)


def collect_pairs_bounded(L, canon, max_depth_key):
    """Variant for grammars with genuine recursion (ampgen): stacks are cut by ``max_depth_key(stack) -> bool``."""
    ip0 = L.parse_interactive("")
    seen = {}
    queue = collections.deque([(ip0, ())])
    pairs = {}
    while queue:
        ip, prefix = queue.popleft()
        key = tuple(ip.parser_state.state_stack)
        if key in seen or not max_depth_key(key):
            continue
        seen[key] = prefix
        F = frozenset(ip.accepts())
        pairs.setdefault((ip.parser_state.position, F), prefix)
        for T in sorted(F):
            if T == "$END":
                continue
            ip2 = ip.copy()
            ip2.feed_token(Token(T, canon[T]))
            queue.append((ip2, prefix + (T,)))
    return pairs, len(seen)


# ------------------------------------------------------------------------------------------------ model

class LexModel:
    """next-token model of one lexer context (ordered terminals) on a bounded symbolic string"""
    _n = 0

    def __init__(self, terms, lmax, overrides=None):
        """overrides: {terminal name: edited node list} used instead of parsing the terminal's regular expression"""
        LexModel._n += 1
        self.terms = terms
        self.names = [n for n, _ in terms]
        self.s = SymStr(f"s{LexModel._n}", lmax)
        m = Matcher(self.s)
        ok = z3.BoolVal(False)
        ty = z3.IntVal(-1)
        end = z3.IntVal(-1)
        for idx in reversed(range(len(terms))):
            if overrides and terms[idx][0] in overrides:
                o, e = m.first_end_nodes(overrides[terms[idx][0]])
            else:
                o, e = m.first_end(terms[idx][1])
            o = z3.And(o, e > 0)
            ty = z3.If(o, idx, ty)
            end = z3.If(o, e, end)
            ok = z3.Or(o, ok)
        self.ok, self.ty, self.end = ok, ty, end


@dataclass
class LemmaResult:
    q: int
    F: tuple
    T: str
    desc: str
    verdict: str                 # "unsat" | "sat" | "unknown" | "unsupported" | "vacuous"
    seconds: float = 0.0
    witness: str | None = None
    got: tuple | None = None     # (terminal name, end) the model returns on the witness
    prefix: tuple = ()
    known: list = field(default_factory=list)   # [(finding id, witness, got)] found and excluded before the final verdict
    real: dict | None = None     # replay on the real scanner
    queries: int = 0
    bound: int = 0


def real_next_token(L, q, text):
    """The real scanner + callback of state q on a concrete text (the replay of a lexer witness)."""
    lx = L.parser.lexer.lexers[q]
    try:
        from lark.utils import TextSlice
        res = lx.scanner.match(TextSlice(text, 0, len(text)), 0)
    except ImportError:          # older Lark: plain strings
        res = lx.scanner.match(text, 0)
    if not res:
        return None
    value, typ = res
    cb = lx.callback.get(typ)
    if cb is not None:
        tok = cb(Token(typ, value))
        typ = tok.type
    return (typ, len(value))


class Sweep:
    """All lemmas of one Lark instance.  ``spec`` supplies the intended classes (see spec_dec / spec_ampgen)."""

    def __init__(self, L, spec, pairs):
        self.L, self.spec, self.pairs = L, spec, pairs
        self.models = {}
        self.str_terms = {t.name: t.pattern.value for t in L.terminals if type(t.pattern).__name__ == "PatternStr"}

    def model(self, terms, lmax) -> LexModel:
        k = (terms, lmax)
        if k not in self.models:
            self.models[k] = LexModel(terms, lmax)
        return self.models[k]

    def instances(self):
        """distinct (context, callbacks, F) triples with one representative (q, prefix)"""
        done = {}
        for (q, F), prefix in self.pairs.items():
            terms, cbs = ctx_of(self.L, q)
            key = (terms, tuple(sorted((k, tuple(sorted(v.items()))) for k, v in cbs.items())), F)
            if key not in done:
                done[key] = (q, F, prefix, terms, cbs)
        return list(done.values())

    # -- one lemma ---------------------------------------------------------------------------------------
    def check(self, q, F, prefix, terms, cbs, T, desc, lm: LexModel, premise, want_name, want_end, known_classes=()):
        """premise: list of z3 constraints over lm.s (+ auxiliary vars).  Claim: lex = (want_name, want_end).

        want_name is the *scanner* terminal expected to win (the host for a folded string terminal)."""
        res = LemmaResult(q=q, F=tuple(sorted(F)), T=T, desc=desc, verdict="unknown", prefix=prefix, bound=lm.s.lmax)
        t0 = time.time()
        sol = z3.Solver()
        sol.set("timeout", SOLVER_TIMEOUT_MS)
        sol.add(*lm.s.constraints())
        sol.add(*premise)
        r = str(sol.check())
        res.queries += 1
        if r == "unsat":
            res.verdict = "vacuous"
            res.seconds = time.time() - t0
            return res
        if r != "sat":
            res.verdict = "unknown"
            res.seconds = time.time() - t0
            return res
        if want_name not in lm.names:
            res.verdict = "sat"
            res.witness = lm.s.value(sol.model())
            res.got = ("<intended terminal not in scanner>", 0)
            res.seconds = time.time() - t0
            return res
        want_idx = lm.names.index(want_name)
        sol.add(z3.Not(z3.And(lm.ok, lm.ty == want_idx, lm.end == want_end)))
        for _ in range(12):
            r = str(sol.check())
            res.queries += 1
            if r == "unsat":
                res.verdict = "unsat"
                break
            if r != "sat":
                res.verdict = "unknown"
                break
            mo = sol.model()
            w = lm.s.value(mo)
            gi = mo.eval(lm.ty, model_completion=True).as_long()
            ge = mo.eval(lm.end, model_completion=True).as_long()
            gok = z3.is_true(mo.eval(lm.ok, model_completion=True))
            got = (lm.names[gi] if gok and gi >= 0 else None, ge if gok else 0)
            hit = None
            for fid, pred_concrete, pred_z3 in known_classes:
                if pred_concrete(w, got):
                    hit = (fid, pred_z3)
                    break
            if hit is None:
                res.verdict = "sat"
                res.witness, res.got = w, got
                break
            res.known.append((hit[0], w, got))
            sol.add(z3.Not(hit[1]))
        res.seconds = time.time() - t0
        return res


def summarize_ctx(terms, cbs):
    return {"scanner": [n for n, _ in terms], "folded": {h: sorted(v.values()) for h, v in cbs.items()}}
