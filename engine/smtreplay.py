"""Replay of an Engine-B witness: the stored text goes through the real parser of the current /repo again."""
from __future__ import annotations

from . import common


def replay(payload: dict) -> int:
    kind = payload.get("kind", "")
    text = payload.get("text")
    if kind.endswith("ampgen"):
        from . import larkcap
        import contextlib, io
        with contextlib.redirect_stdout(io.StringIO()):
            L = larkcap.capture_ampgen()
        if text is None:
            print("no text stored for this witness")
            return common.EXIT_HARNESS
        try:
            t = L.parse(text)
            print("real ampgen parser accepts the text:", t.pretty()[:1500])
        except Exception as e:
            print("real ampgen parser:", type(e).__name__, str(e)[:500])
        return common.EXIT_VIOLATION
    if kind == "b2":
        import re
        from . import larkcap
        L = larkcap.capture_dec(tuple(payload.get("extra_models", ())))
        terms = {t.name: t.pattern.to_regexp() for t in L.terminals}
        w, tn = payload["witness"], payload["terminal"]
        print(f"terminal {tn} = {terms[tn]!r}; fullmatch({w!r}) = {bool(re.fullmatch(terms[tn], w))}")
        return common.EXIT_VIOLATION
    if kind == "symbolic-registered-name":
        from . import symname
        r = symname._replay({"registered_name": payload["registered_name"], "text": payload["text"]})
        print("registered name", repr(payload["registered_name"]), "; decay line", repr(r["public_text"]), "->", r["real_result"],
              "; reproduces:", r["reproduced"])
        return common.EXIT_VIOLATION if r["reproduced"] else common.EXIT_OK
    from . import decsweep, larkcap, lexmodel
    extra = tuple(payload.get("extra_models", ()))
    if "state" in payload and payload.get("witness") is not None:
        L = larkcap.capture_dec(extra)
        print("real scanner of state", payload["state"], "on", repr(payload["witness"]), "->",
              lexmodel.real_next_token(L, payload["state"], payload["witness"]), "; intended:", payload.get("intended"))
    if text is not None:
        print("public parse of", repr(text), "->", decsweep.public_parse(text if text.endswith("\n") else text + "\n", extra))
    return common.EXIT_VIOLATION
