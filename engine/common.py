"""Shared plumbing of the checks: obligations, verdicts, evidence files, known findings, replays.

Exit codes of ``/verif/check``:
  0  every obligation discharged (or inconclusive, listed in evidence), known findings printed
  1  at least one reproduced violation that is not a listed known finding
  3  reserved: harness / encoding error (a counter-example that does not reproduce on the real
     code, a reachability twin that does not fail, a solver error)
"""
from __future__ import annotations

import hashlib
import json
import os
import sys
import time
from dataclasses import dataclass, field
from pathlib import Path
from typing import Any

VERIF = Path(__file__).resolve().parent.parent
REPO = Path(os.environ.get("VERIF_REPO", "/repo"))
EVIDENCE_DIR = Path(os.environ.get("VERIF_EVIDENCE_DIR", VERIF / "evidence"))     # overridden only by tools/seed_matrix.sh
REPLAY_DIR = Path(os.environ.get("VERIF_REPLAY_DIR", VERIF / "replays"))
FINDINGS_FILE = VERIF / "known_findings.json"

EXIT_OK, EXIT_VIOLATION, EXIT_HARNESS = 0, 1, 3

# verdicts of one obligation
DISCHARGED = "discharged"        # unsat / CONFIRMED over all paths
VIOLATION = "violation"          # counter-example that reproduces on the real code
KNOWN = "known-finding"          # counter-example reproduces and is listed in known_findings.json
INCONCLUSIVE = "inconclusive"    # unknown / timeout / unsupported construct: never counted as success
HARNESS_ERROR = "harness-error"  # counter-example does not reproduce, twin does not fail, solver error


def seed() -> int:
    try:
        return int(os.environ.get("VERIF_SEED", "0"))
    except ValueError:
        return 0


@dataclass
class Obligation:
    name: str
    engine: str                    # "smt" (Engine B) or "crosshair" (Engine A)
    verdict: str
    claim: str = ""                # what is asserted, in words
    bounds: str = ""               # the bound inside which the verdict holds
    queries: int = 0               # solver queries / paths
    solver_s: float = 0.0
    detail: Any = None             # counter-example, reason for inconclusive, ...
    functions: list[str] = field(default_factory=list)
    nontrivial: int = 0            # distinct non-vacuous cases behind this obligation (see rule)
    sample: Any = None

    def to_json(self) -> dict:
        d = {k: v for k, v in self.__dict__.items() if v not in (None, "", [], 0, 0.0)}
        d["verdict"] = self.verdict
        return d


def load_findings() -> list[dict]:
    if not FINDINGS_FILE.exists():
        return []
    return json.loads(FINDINGS_FILE.read_text())["findings"]


def known_for(prop: str) -> list[dict]:
    return [f for f in load_findings() if prop in f["properties"] and f["status"] == "known"]


def write_replay(prop: str, payload: dict) -> Path:
    REPLAY_DIR.mkdir(exist_ok=True)
    blob = json.dumps(payload, sort_keys=True, default=repr)
    h = hashlib.sha1(blob.encode()).hexdigest()[:12]
    path = REPLAY_DIR / f"{prop}-{h}.json"
    path.write_text(json.dumps(payload, indent=1, sort_keys=True, default=repr))
    return path


class Report:
    """Collects obligations of one check run and turns them into evidence + exit status."""

    def __init__(self, prop: str, tier: str, level: str = "model_checking"):
        self.prop, self.tier, self.level = prop, tier, level
        self.t0 = time.time()
        self.obligations: list[Obligation] = []
        self.assumptions: list[str] = []
        self.stubs: list[str] = []
        self.functions: list[str] = []
        self.known_lines: list[str] = []
        self.violation_lines: list[str] = []
        self.notes: list[str] = []
        self.extra: dict[str, Any] = {}

    def add(self, ob: Obligation) -> Obligation:
        self.obligations.append(ob)
        tag = {DISCHARGED: "ok", VIOLATION: "VIOLATED", KNOWN: "known", INCONCLUSIVE: "inconclusive",
               HARNESS_ERROR: "HARNESS-ERROR"}[ob.verdict]
        print(f"[{self.prop}] {tag:13} {ob.engine:9} {ob.name}  ({ob.queries} q, {ob.solver_s:.1f}s)"
              + (f"  {str(ob.detail)[:300]}" if ob.verdict != DISCHARGED and ob.detail else ""), flush=True)
        return ob

    def known(self, text: str, fid: str | None = None) -> None:
        """One KNOWN-FINDING line per listed finding of *this* property; findings of other properties that a shared
        lemma runs into are only noted (their class is excluded from the claim either way)."""
        if fid is not None:
            mine = {f["id"] for f in known_for(self.prop)}
            if fid not in mine:
                note = f"(finding {fid} of another property met and excluded: {text[:160]})"
                if not any(n.startswith(f"(finding {fid} ") for n in self.notes):
                    self.notes.append(note)
                return
            if any(l.split()[2] == fid for l in self.known_lines):
                return
            text = f"{fid} {text}"
        line = f"KNOWN-FINDING: property={self.prop} {text}"
        if line not in self.known_lines:
            self.known_lines.append(line)
            print(line, flush=True)

    def violation(self, payload: dict) -> Path:
        payload = dict(payload, property=self.prop)
        path = write_replay(self.prop, payload)
        line = f"VIOLATION property={self.prop} replay={path}"
        self.violation_lines.append(line)
        print(line, flush=True)
        return path

    def finish(self) -> int:
        obs = self.obligations
        n_viol = sum(o.verdict == VIOLATION for o in obs)
        n_err = sum(o.verdict == HARNESS_ERROR for o in obs)
        n_inc = sum(o.verdict == INCONCLUSIVE for o in obs)
        discharged = sum(o.verdict == DISCHARGED for o in obs)
        evaluations = sum(o.queries for o in obs)
        nontrivial = sum(o.nontrivial for o in obs if o.verdict in (DISCHARGED, KNOWN))
        samples = [o.sample for o in obs if o.sample is not None][:12] or [o.name for o in obs[:8]]
        functions = sorted(set(self.functions) | {f for o in obs for f in o.functions})
        coverage = {
            "evaluations": max(evaluations, 0),
            "distinct_nontrivial": nontrivial,
            "rule": ("one evaluation = one SMT query (Engine B) or one symbolically executed path closed by z3 "
                     "(Engine A, CrossHair); a case is non-trivial and distinct when it is a separate proof obligation "
                     "whose premise was shown satisfiable (SMT) or a separate path that reached the postcondition "
                     "(CrossHair); reachability twins and premise checks are not counted"),
            "samples": samples,
            "obligations": len(obs),
            "discharged": discharged,
            "inconclusive": n_inc,
            "exhaustive": bool(obs) and discharged + sum(o.verdict == KNOWN for o in obs) == len(obs),
            "solver_time_s": round(sum(o.solver_s for o in obs), 2),
            "functions_encoded": functions,
            "stubs": self.stubs,
            "obligation_list": [o.to_json() for o in obs],
            "known_findings_reported": self.known_lines,
            "notes": self.notes,
            "explanation": ("bounded symbolic checking: every obligation is decided by z3 (directly on an encoding regenerated "
                            "from the repository's Lark objects, or path by path through CrossHair on the real functions); "
                            "'discharged' means unsat / confirmed over all paths inside the stated bounds"),
        }
        coverage.update(self.extra)
        ev = {
            "property_id": self.prop,
            "tier": self.tier,
            "seed": seed(),
            "level": self.level,
            "coverage": coverage,
            "assumptions": self.assumptions,
            "wall_s": round(time.time() - self.t0, 2),
            "violations": n_viol,
        }
        EVIDENCE_DIR.mkdir(exist_ok=True)
        (EVIDENCE_DIR / f"{self.prop}.json").write_text(json.dumps(ev, indent=1, default=repr))
        print(f"[{self.prop}] {self.tier}: {discharged}/{len(obs)} obligations discharged, {n_inc} inconclusive, "
              f"{n_viol} violations, {n_err} harness errors, {len(self.known_lines)} known findings, "
              f"{ev['wall_s']}s", flush=True)
        if n_viol:
            return EXIT_VIOLATION
        if n_err:
            return EXIT_HARNESS
        return EXIT_OK


def repo_head() -> str:
    import subprocess
    try:
        return subprocess.run(["git", "-C", str(REPO), "rev-parse", "--short", "HEAD"], capture_output=True,
                              text=True, timeout=10).stdout.strip()
    except Exception:
        return "?"
