"""Capture the Lark instances the repository code builds (grammar file from /repo, edit_terminals callback
applied, user-registered models merged) by putting a recording subclass in place of the name ``Lark`` in the
repository module and calling the real entry point once on a trivial text."""
from __future__ import annotations

import warnings

from lark import Lark

TRIVIAL_DEC = "Decay A\n1.0 B C PHSP;\nEnddecay\n"
TRIVIAL_AMPGEN = ("EventType D0 K- pi+ pi+ pi-\n"
                  "D0{K*(892)bar0{K-,pi+},rho(770)0{pi+,pi-}} 0 0.5 0.1 0 1.5 0.2\n")


def capture_dec(extra_models: tuple[str, ...] = ()) -> Lark:
    import decaylanguage.dec.dec as decmod
    from decaylanguage.dec.dec import DecFileParser

    cap = []

    class RecLark(Lark):
        def __init__(self, *a, **k):
            super().__init__(*a, **k)
            cap.append(self)

    old = decmod.Lark
    decmod.Lark = RecLark
    try:
        p = DecFileParser.from_string(TRIVIAL_DEC)
        if extra_models:
            p.load_additional_decay_models(*extra_models)
        with warnings.catch_warnings():
            warnings.simplefilter("ignore")
            p.parse()
    finally:
        decmod.Lark = old
    if len(cap) != 1:
        raise RuntimeError(f"expected one Lark instance, got {len(cap)}")
    return cap[0]


def capture_ampgen() -> Lark:
    """The ampgen Lark object *without* the transformer (we want the raw tree shapes)."""
    import decaylanguage.modeling.amplitudechain as ac

    cap = []

    class RecLark(Lark):
        def __init__(self, *a, **k):
            k2 = dict(k)
            k2.pop("transformer", None)
            super().__init__(*a, **k2)
            cap.append(self)

    old = ac.Lark
    ac.Lark = RecLark
    try:
        try:
            ac.AmplitudeChain.read_ampgen(text=TRIVIAL_AMPGEN)
        except Exception:
            pass  # without the transformer the post-processing cannot work; the Lark object is what we want
    finally:
        ac.Lark = old
    if not cap:
        raise RuntimeError("read_ampgen did not build a Lark instance")
    return cap[0]


def canon_tokens(L: Lark) -> dict[str, str]:
    """One canonical lexeme per terminal (used to walk the parser and to render witnesses)."""
    canon = {"LABEL": "B0", "SIGNED_NUMBER": "0.5", "INT": "1", "MODEL_NAME": "PHSP", "_NEWLINE": "\n", "_SEMICOLON": ";",
             "_COMMA": ",", "LABEL_PYTHIA8_COMMANDS": "PythiaBothParam", "LABEL_LINESHAPE": "LSFLAT",
             "LABEL_INCLUDE_FACTOR": "IncludeBirthFactor", "BOOLEAN_INCLUDE_FACTOR": "yes", "LABEL_CHANGE_MASS": "ChangeMassMin",
             "SPIN": "P", "LINESHAPE": "GSpline.EFF", "ESCAPED_STRING": '"out.root"', "COMMENT": "# c", "WS_INLINE": " "}
    for t in L.terminals:
        if type(t.pattern).__name__ == "PatternStr":
            canon[t.name] = t.pattern.value
    return canon
