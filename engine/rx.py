"""Regular expressions as z3 terms, two ways.

``to_re``     : ``re._parser`` AST -> z3 regular-expression term (language level, unbounded length).
``Matcher``   : the same AST *executed* over a bounded symbolic string with Python ``re`` semantics (leftmost
                alternative first, greedy / lazy repeats with the empty-iteration guard, ``\\b``), yielding
                ``(matched, end)`` as z3 terms for ``re.compile(p).match(s, start)``.  Positions are concrete,
                characters are z3 Ints.  Repeats are memoised on (node, saturated count, position, continuation).

Unsupported constructs raise ``Unsupported``; the caller reports the lemma that needed it as inconclusive.
"""
from __future__ import annotations

import itertools

import re._constants as C
import re._parser as sre_parse
import z3


class Unsupported(Exception):
    pass


# ------------------------------------------------------------------------------------------ language level

def _chr_re(cp: int):
    return z3.Re(z3.StringVal(chr(cp)))


def _allchar():
    return z3.AllChar(z3.ReSort(z3.StringSort()))


def to_re(pattern: str):
    def seq(nodes):
        parts = [node(n) for n in nodes]
        if not parts:
            return z3.Re(z3.StringVal(""))
        return parts[0] if len(parts) == 1 else z3.Concat(*parts)

    def cls(items):
        neg = False
        rs = []
        for op, av in items:
            if op is C.NEGATE:
                neg = True
            elif op is C.LITERAL:
                rs.append(_chr_re(av))
            elif op is C.RANGE:
                rs.append(z3.Range(chr(av[0]), chr(av[1])))
            elif op is C.CATEGORY and av is C.CATEGORY_DIGIT:
                rs.append(z3.Range("0", "9"))
            elif op is C.CATEGORY and av is C.CATEGORY_WORD:
                rs += [z3.Range("0", "9"), z3.Range("a", "z"), z3.Range("A", "Z"), _chr_re(95)]
            elif op is C.CATEGORY and av is C.CATEGORY_SPACE:
                rs += [_chr_re(32), z3.Range("\t", "\r")]
            else:
                raise Unsupported((op, av))
        r = rs[0] if len(rs) == 1 else z3.Union(*rs)
        return z3.Intersect(_allchar(), z3.Complement(r)) if neg else r

    def node(n):
        op, av = n
        if op is C.LITERAL:
            return _chr_re(av)
        if op is C.NOT_LITERAL:
            return z3.Intersect(_allchar(), z3.Complement(_chr_re(av)))
        if op is C.ANY:
            return z3.Intersect(_allchar(), z3.Complement(_chr_re(10)))
        if op is C.IN:
            return cls(av)
        if op is C.SUBPATTERN:
            return seq(av[3])
        if op is C.BRANCH:
            alts = [seq(a) for a in av[1]]
            return alts[0] if len(alts) == 1 else z3.Union(*alts)
        if op in (C.MAX_REPEAT, C.MIN_REPEAT):
            lo, hi, item = av
            r = seq(item)
            if hi is C.MAXREPEAT:
                if lo == 0:
                    return z3.Star(r)
                if lo == 1:
                    return z3.Plus(r)
                return z3.Concat(z3.Loop(r, lo, lo), z3.Star(r))
            return z3.Loop(r, lo, hi)
        raise Unsupported(op)

    return seq(list(sre_parse.parse(pattern)))


def strip_trailing_boundary(pattern: str) -> tuple[str, bool]:
    """MODEL_NAME is ``(?:a|b|...)\\b``: the language-level translation handles the boundary separately."""
    if pattern.endswith(r"\b"):
        return pattern[:-2], True
    return pattern, False


# ------------------------------------------------------------------------------------------ matcher level

class SymStr:
    def __init__(self, name: str, lmax: int):
        self.lmax = lmax
        self.c = [z3.Int(f"{name}_c{i}") for i in range(lmax)]
        self.n = z3.Int(f"{name}_n")

    def constraints(self):
        return [self.n >= 0, self.n <= self.lmax] + [z3.And(x >= 0, x < 0x110000) for x in self.c]

    def fix_prefix(self, w: str):
        return [self.c[i] == ord(ch) for i, ch in enumerate(w)]

    def value(self, model) -> str:
        n = model.eval(self.n, model_completion=True).as_long()
        return "".join(chr(model.eval(c, model_completion=True).as_long()) for c in self.c[:n])


def is_word(ch):
    """ASCII ``\\w``.  Non-ASCII word characters are outside every alphabet the lemmas quantify over."""
    return z3.Or(z3.And(ch >= 48, ch <= 57), z3.And(ch >= 65, ch <= 90), z3.And(ch >= 97, ch <= 122), ch == 95)


def category(ch, av):
    if av is C.CATEGORY_DIGIT:
        return z3.And(ch >= 48, ch <= 57)
    if av is C.CATEGORY_WORD:
        return is_word(ch)
    if av is C.CATEGORY_SPACE:
        return z3.Or(ch == 32, z3.And(ch >= 9, ch <= 13))
    if av is C.CATEGORY_NOT_DIGIT:
        return z3.Not(z3.And(ch >= 48, ch <= 57))
    if av is C.CATEGORY_NOT_WORD:
        return z3.Not(is_word(ch))
    if av is C.CATEGORY_NOT_SPACE:
        return z3.Not(z3.Or(ch == 32, z3.And(ch >= 9, ch <= 13)))
    raise Unsupported(av)


def in_class(ch, items):
    neg = False
    ors = []
    for op, av in items:
        if op is C.NEGATE:
            neg = True
        elif op is C.LITERAL:
            ors.append(ch == av)
        elif op is C.RANGE:
            ors.append(z3.And(ch >= av[0], ch <= av[1]))
        elif op is C.CATEGORY:
            ors.append(category(ch, av))
        else:
            raise Unsupported(op)
    r = z3.Or(*ors) if ors else z3.BoolVal(False)
    return z3.Not(r) if neg else r


FAIL = (z3.BoolVal(False), z3.IntVal(-1))


class _Cont:
    _ids = itertools.count()

    def __init__(self, fn):
        self.fn = fn
        self.id = next(_Cont._ids)
        self.memo = {}

    def __call__(self, j):
        if j not in self.memo:
            self.memo[j] = self.fn(j)
        return self.memo[j]


class Matcher:
    def __init__(self, s: SymStr):
        self.s = s
        self.memo = {}
        self._tt = {}
        self._keep = []

    def first_end(self, pattern: str, start: int = 0):
        """(ok, end) for ``re.compile(pattern).match(s, start)``"""
        tree = sre_parse.parse(pattern)
        return self.seq(self._t(tree.data), 0, start, _Cont(lambda j: (z3.BoolVal(True), z3.IntVal(j))))

    def first_end_nodes(self, nodes, start: int = 0):
        """like first_end for an already parsed (and possibly edited) node list: LITERAL nodes may carry a z3 Int instead of a code
        point - that is how a *symbolic* registered model name is put into the real MODEL_NAME alternation"""
        return self.seq(self._t(nodes), 0, start, _Cont(lambda j: (z3.BoolVal(True), z3.IntVal(j))))

    def first_end_with(self, pattern: str, final, start: int = 0):
        """like first_end, but ``final(j) -> (ok, end)`` decides whether a match ending at j is acceptable (the
        backtracking search goes on otherwise): with ``final = lambda j: (wl == j, j)`` the result says whether
        *some* match ends exactly at the symbolic position wl."""
        tree = sre_parse.parse(pattern)
        return self.seq(self._t(tree.data), 0, start, _Cont(final))

    def _t(self, sub):
        k = id(sub)
        if k not in self._tt:
            self._tt[k] = (tuple(sub), sub)
        return self._tt[k][0]

    def seq(self, nodes, k, i, cont):
        key = (id(nodes), k, i, cont.id)
        if key in self.memo:
            return self.memo[key]
        r = self._seq(nodes, k, i, cont)
        self.memo[key] = r
        self._keep.append(nodes)
        return r

    def _seq(self, nodes, k, i, cont):
        if k == len(nodes):
            return cont(i)
        op, av = nodes[k]
        s = self.s
        nxt = _Cont(lambda j: self.seq(nodes, k + 1, j, cont))

        def one_char(cond_fn):
            if i >= s.lmax:
                return FAIL
            ok, end = nxt(i + 1)
            return (z3.And(i < s.n, cond_fn(s.c[i]), ok), end)

        if op is C.LITERAL:
            return one_char(lambda ch: ch == av)
        if op is C.NOT_LITERAL:
            return one_char(lambda ch: ch != av)
        if op is C.ANY:
            return one_char(lambda ch: ch != 10)
        if op is C.IN:
            return one_char(lambda ch: in_class(ch, av))
        if op is C.SUBPATTERN:
            if av[1] or av[2]:
                raise Unsupported("inline flags")
            return self.seq(self._t(av[3]), 0, i, nxt)
        if op is C.BRANCH:
            res = FAIL
            for alt in reversed(av[1]):
                ok, end = self.seq(self._t(alt), 0, i, nxt)
                res = (z3.Or(ok, res[0]), z3.If(ok, end, res[1]))
            return res
        if op in (C.MAX_REPEAT, C.MIN_REPEAT):
            lo, hi, item = av
            greedy = op is C.MAX_REPEAT
            item_t = self._t(item)
            rmemo = {}

            def rep(count, pos):
                csat = min(count, lo) if hi is C.MAXREPEAT else count
                key = (csat, pos)
                if key in rmemo:
                    return rmemo[key]
                stop = nxt(pos) if count >= lo else FAIL
                if (hi is not C.MAXREPEAT and count >= hi) or pos >= s.lmax:
                    rmemo[key] = stop
                    return stop
                after = _Cont(lambda j: FAIL if j == pos else rep(count + 1, j))
                more = self.seq(item_t, 0, pos, after)
                a, b = (more, stop) if greedy else (stop, more)
                r = (z3.Or(a[0], b[0]), z3.If(a[0], a[1], b[1]))
                rmemo[key] = r
                return r

            return rep(0, i)
        if op in (C.ASSERT, C.ASSERT_NOT):
            direction, sub = av
            if direction != 1:
                # look-behind of exactly one character (lark's ESCAPED_STRING uses (?<!\\)): a condition on the previous character
                items = list(sub)
                if len(items) != 1 or items[0][0] not in (C.LITERAL, C.NOT_LITERAL, C.IN):
                    raise Unsupported("look-behind assertion wider than one character")
                o, a = items[0]
                if i >= 1:
                    prev = s.c[i - 1]
                    cond = (prev == a) if o is C.LITERAL else (prev != a) if o is C.NOT_LITERAL else in_class(prev, a)
                else:
                    cond = z3.BoolVal(False)
                ok, end = nxt(i)
                return (z3.And(cond if op is C.ASSERT else z3.Not(cond), ok), end)
            # look-ahead: does the sub-pattern match at i (any way)?  the main match then continues from i itself
            ok_sub, _ = self.seq(self._t(sub), 0, i, _Cont(lambda j: (z3.BoolVal(True), z3.IntVal(j))))
            ok, end = nxt(i)
            return (z3.And(ok_sub if op is C.ASSERT else z3.Not(ok_sub), ok), end)
        if op is C.AT:
            if av is C.AT_END or av is C.AT_END_STRING:
                # '$' (without MULTILINE): at the end, or just before a final newline
                at_end = z3.Or(s.n == i, z3.And(s.n == i + 1, s.c[i] == 10)) if i < s.lmax else (s.n == i)
                if av is C.AT_END_STRING:
                    at_end = s.n == i
                ok, end = nxt(i)
                return (z3.And(at_end, ok), end)
            if av is C.AT_BOUNDARY:
                prev = is_word(s.c[i - 1]) if i >= 1 else z3.BoolVal(False)
                cur = z3.And(i < s.n, is_word(s.c[i])) if i < s.lmax else z3.BoolVal(False)
                ok, end = nxt(i)
                return (z3.And(prev != cur, ok), end)
            if av is C.AT_BEGINNING or av is C.AT_BEGINNING_STRING:
                return nxt(i) if i == 0 else FAIL
            raise Unsupported(av)
        raise Unsupported((op, av))


def selfcheck(patterns, alphabets, lmax=10, n=200, seed=0):
    """Model vs ``re`` on random strings; returns number of mismatches (sanity, not evidence)."""
    import random
    import re
    rnd = random.Random(seed)
    bad = 0
    for pat, alpha in zip(patterns, alphabets):
        s = SymStr("v", lmax)
        ok, end = Matcher(s).first_end(pat)
        sol = z3.Solver()
        sol.add(*s.constraints())
        rx = re.compile(pat)
        for _ in range(n):
            w = "".join(rnd.choice(alpha) for _ in range(rnd.randint(0, lmax)))
            mm = rx.match(w)
            sol.push()
            sol.add(s.n == len(w), *s.fix_prefix(w))
            assert str(sol.check()) == "sat"
            mo = sol.model()
            gok = z3.is_true(mo.eval(ok, model_completion=True))
            ge = mo.eval(end, model_completion=True).as_long()
            if gok != (mm is not None) or (mm and ge != mm.end()):
                bad += 1
            sol.pop()
    return bad
