"""Untraced proxies for third-party code that receives concrete arguments only.

CrossHair traces every Python-level call. Lark's LALR machinery, the particle tables, pandas and numpy are
large third-party stacks whose inputs in our harnesses are always concrete (a rendered text, a particle name
from a finite pool); executing them under tracing costs seconds per path and proves nothing about
decaylanguage. The proxies below run them with tracing switched off. They are the identity on concrete
arguments; they are installed on the *names the repository modules look up* (``decaylanguage.dec.dec.Lark``
...), never inside the repository's own functions. Every proxy is listed as a stub in the evidence file.

``install()`` is called by the CrossHair worker before analysis; the concrete replay of a counter-example
runs without it.
"""
from __future__ import annotations

STUBS = [
    "decaylanguage.dec.dec.Lark -> untraced Lark (instance cached per grammar text + MODEL_NAME regex + options)",
    "lark.Tree.iter_subtrees -> same generator run untraced, materialised as a list",
    "decaylanguage.{dec.dec,utils.particleutils,modeling.amplitudechain}.Particle -> untraced attribute/call proxy",
    "particle tables pre-warmed before tracing starts",
]

_installed = False
_lark_cache: dict = {}


def prewarm() -> None:
    from particle import Particle
    from decaylanguage.utils.particleutils import charge_conjugate_name

    Particle.from_evtgen_name("K+").invert()
    Particle.from_pdgid(211)
    charge_conjugate_name("K+")
    charge_conjugate_name("K+", pdg_name=True)
    if hasattr(charge_conjugate_name, "cache_clear"):
        charge_conjugate_name.cache_clear()
    try:
        Particle.findall(name="pi+")
    except Exception:
        pass


class _Term:
    """stand-in TerminalDef used to read the MODEL_NAME alternation out of the edit_terminals callback"""

    class _P:
        value = "MODEL_NAME_PLACEHOLDER"

    def __init__(self):
        self.name = "MODEL_NAME"
        self.pattern = _Term._P()


def _make_untraced_lark():
    from crosshair import NoTracing
    from crosshair.core import deep_realize
    from lark import Lark

    class UntracedLark:
        def __init__(self, grammar, **opts):
            with NoTracing():
                grammar = deep_realize(grammar)
                cb = opts.get("edit_terminals")
                key_cb = None
                if cb is not None:
                    t = _Term()
                    cb(t)
                    key_cb = t.pattern.value
                key = (grammar, key_cb, tuple(sorted((k, repr(v)) for k, v in opts.items()
                                                     if k not in ("edit_terminals", "transformer"))),
                       type(opts.get("transformer")).__name__)
                lk = _lark_cache.get(key)
                if lk is None:
                    lk = _lark_cache[key] = Lark(grammar, **opts)
                self._l = lk

        def parse(self, text, *a, **k):
            with NoTracing():
                return self._l.parse(deep_realize(text), *a, **k)

    return UntracedLark


def _make_particle_proxy():
    from crosshair import NoTracing
    from crosshair.core import deep_realize
    from particle import Particle

    class ParticleProxy:
        """``Particle`` as seen by the repository modules: class-level calls run untraced."""

        def __getattr__(self, name):
            f = getattr(Particle, name)
            if callable(f):
                def w(*a, **k):
                    with NoTracing():
                        a2 = tuple(deep_realize(x) for x in a)
                        k2 = {kk: deep_realize(v) for kk, v in k.items()}
                        return f(*a2, **k2)
                return w
            return f

        def __call__(self, *a, **k):
            with NoTracing():
                return Particle(*a, **k)

        def __instancecheck__(self, inst):
            return isinstance(inst, Particle)

    return ParticleProxy()


def install(dec: bool = True, particle: bool = True, amp: bool = False) -> None:
    """Install the proxies (idempotent)."""
    global _installed
    if _installed:
        return
    _installed = True
    from crosshair import NoTracing, register_patch
    from lark import Tree

    prewarm()
    if dec:
        import decaylanguage.dec.dec as decmod
        decmod.Lark = _make_untraced_lark()
    orig_iter = Tree.iter_subtrees

    def iter_subtrees_untraced(self):
        with NoTracing():
            return iter(list(orig_iter(self)))

    register_patch(Tree.iter_subtrees, iter_subtrees_untraced)
    if particle:
        import decaylanguage.dec.dec as decmod
        import decaylanguage.utils.particleutils as pu
        proxy = _make_particle_proxy()
        decmod.Particle = proxy
        pu.Particle = proxy
    if amp:
        import decaylanguage.modeling.amplitudechain as ac
        ac.Lark = _make_untraced_lark()
        ac.Particle = _make_particle_proxy()
