"""Engine B, grammar side (B1): the rules of the real Lark object as one annotated regular expression.

Alphabet: one letter per (terminal, kept|dropped) pair, one "open" letter per tree-building rule name / alias and one
"close" letter.  A word of the language is at once the token-type sequence of an accepted text and the bracketed
yield of the tree Lark builds for it (Lark's tree construction: ``filter_out`` tokens dropped, ``_rule`` and ``?rule``
with one child inlined, aliases rename the node).

Only direct left recursion (Lark's EBNF helper rules) is eliminated (Arden).  Any other recursion raises
``Unsupported`` unless ``unroll`` gives a nesting bound for the named rules, in which case those rules are expanded to
that depth and the claim is bounded accordingly.
"""
from __future__ import annotations

import time

import z3
from lark import Token, Tree

from .rx import Unsupported

EPS = None


def _eps():
    return z3.Re(z3.StringVal(""))


class Alphabet:
    def __init__(self, erase_dropped: bool = False):
        self.syms: dict[tuple, str] = {}
        self.erase_dropped = erase_dropped      # projection: dropped tokens become the empty word

    def ch(self, key: tuple) -> str:
        if key not in self.syms:
            self.syms[key] = chr(0x100 + len(self.syms))
        return self.syms[key]

    def lit(self, key: tuple):
        if self.erase_dropped and key[0] == "tok" and key[2] == "drop":
            return _eps()
        return z3.Re(z3.StringVal(self.ch(key)))

    def decode(self, word: str) -> list[tuple]:
        inv = {v: k for k, v in self.syms.items()}
        return [inv.get(c, ("?", c)) for c in word]


def cat(xs):
    xs = list(xs)
    if not xs:
        return _eps()
    return xs[0] if len(xs) == 1 else z3.Concat(*xs)


def alt(xs):
    xs = list(xs)
    if not xs:
        return z3.Empty(z3.ReSort(z3.StringSort()))
    return xs[0] if len(xs) == 1 else z3.Union(*xs)


class GramModel:
    def __init__(self, L, alphabet: Alphabet | None = None, unroll: dict[str, int] | None = None, plus: set | None = None):
        self.L = L
        self.A = alphabet or Alphabet()
        self.unroll = unroll or {}
        self.plus = plus or set()         # terminals t for which every occurrence is read as t+ (closure queries)
        self.rules: dict[str, list] = {}
        for r in L.rules:
            self.rules.setdefault(r.origin.name, []).append(r)
        self.memo: dict = {}
        self.keep_all = bool(getattr(L.options, "keep_all_tokens", False))
        self.start = L.options.start[0] if isinstance(L.options.start, (list, tuple)) else L.options.start
        self.regex = self.nt(self.start, (), ())

    # ---------------------------------------------------------------------------------------------------
    def nt(self, name: str, stack: tuple, depth: tuple):
        key = (name, depth)
        if key in self.memo:
            return self.memo[key]
        if name in stack:
            if name in self.unroll:
                d = dict(depth)
                used = d.get(name, 0)
                if used >= self.unroll[name]:
                    return None        # cut: this alternative is dropped at the nesting bound
                d[name] = used + 1
                return self._build(name, stack, tuple(sorted(d.items())))
            raise Unsupported(f"recursion through rule {name!r} is not a direct left recursion")
        res = self._build(name, stack, depth)
        self.memo[key] = res
        return res

    def _build(self, name, stack, depth):
        base, step = [], []
        for r in self.rules[name]:
            exp = r.expansion
            if exp and not exp[0].is_term and exp[0].name == name:       # N -> N beta
                if any((not s.is_term) and s.name == name for s in exp[1:]):
                    raise Unsupported(f"rule {name!r}: recursion other than direct left recursion")
                parts = [self.sym(s, stack + (name,), depth) for s in exp[1:]]
                if any(p is None for p in parts):
                    continue
                step.append(cat(parts))
            else:
                if any((not s.is_term) and s.name == name for s in exp) and name not in self.unroll:
                    raise Unsupported(f"rule {name!r}: recursion other than direct left recursion")
                parts = [self.sym(s, stack + (name,), depth) for s in exp]
                if any(p is None for p in parts):
                    continue
                base.append(self.wrap(r, cat(parts)))
        if not base:
            return None
        res = alt(base)
        if step:
            res = z3.Concat(res, z3.Star(alt(step)))
        return res

    def wrap(self, r, body):
        name = r.origin.name
        if name.startswith("_"):
            return body
        if r.options.expand1:
            kept = [s for s in r.expansion if not (s.is_term and s.filter_out and not self.keep_all)]
            if len(kept) == 1 and not kept[0].is_term:
                return body            # ?rule with exactly one (tree) child: inlined
            if len(kept) == 1:
                raise Unsupported(f"?{name} with a single token child")
        label = r.alias or name
        return z3.Concat(self.A.lit(("open", label)), body, self.A.lit(("close",)))

    def sym(self, s, stack, depth):
        if s.is_term:
            dropped = s.filter_out and not self.keep_all
            r = self.A.lit(("tok", s.name, "drop" if dropped else "keep"))
            return z3.Plus(r) if s.name in self.plus else r
        return self.nt(s.name, stack, depth)

    # ---------------------------------------------------------------------------------------------------
    def tree_word(self, tree) -> str:
        """bracketed yield of a real Lark tree over the same alphabet (dropped tokens are not in a tree)"""
        out = []

        def go(t):
            if isinstance(t, Tree):
                out.append(self.A.ch(("open", str(t.data))))
                for c in t.children:
                    go(c)
                out.append(self.A.ch(("close",)))
            elif isinstance(t, Token):
                out.append(self.A.ch(("tok", t.type, "keep")))
            else:
                out.append("\u00bf")
        go(tree)
        return "".join(out)

    def project(self, word: str) -> str:
        drop = {v for k, v in self.A.syms.items() if k[0] == "tok" and k[2] == "drop"}
        return "".join(c for c in word if c not in drop)

    def tokens(self, word: str) -> list[str]:
        return [k[1] for k in self.A.decode(word) if k[0] == "tok"]


def included(A, B, timeout_ms=120_000):
    """(verdict, witness, seconds) for L(A) subset-of L(B): unsat = holds for words of every length."""
    s = z3.String("w")
    sol = z3.Solver()
    sol.set("timeout", timeout_ms)
    sol.add(z3.InRe(s, A), z3.Not(z3.InRe(s, B)))
    t = time.time()
    r = str(sol.check())
    w = None
    if r == "sat":
        w = sol.model()[s].as_string()
        w = _unescape(w)
    return r, w, time.time() - t


def nonempty(A, timeout_ms=60_000):
    s = z3.String("w")
    sol = z3.Solver()
    sol.set("timeout", timeout_ms)
    sol.add(z3.InRe(s, A))
    return str(sol.check())


def member(word: str, A, timeout_ms=60_000) -> str:
    sol = z3.Solver()
    sol.set("timeout", timeout_ms)
    sol.add(z3.InRe(z3.StringVal(word), A))
    return str(sol.check())


def _unescape(w: str) -> str:
    """z3 prints non-ASCII characters as \\u{...}"""
    import re
    return re.sub(r"\\u\{([0-9a-fA-F]+)\}", lambda m: chr(int(m.group(1), 16)), w)
