"""Specification side of Engine B for .dec files - written from the property texts (C01, C02, C06, C07) and EvtGen's
syntax, NOT from decfile.lark.

* character classes the lexer lemmas quantify over (label alphabet, numeric literal forms, keyword literals);
* the lemma generator for the decfile lexer;
* the statement language as an annotated regular expression (B1) and the terminal languages (B2).
"""
from __future__ import annotations

import re

import z3

from .lexmodel import LemmaResult, LexModel, Sweep
from .rx import Matcher, SymStr, Unsupported, is_word, to_re

# ---- character level ---------------------------------------------------------------------------------------
ALPHA = "abcdefghijklmnopqrstuvwxyzABCDEFGHIJKLMNOPQRSTUVWXYZ0123456789/-+*_().'~"      # C01: the label alphabet
NUM_SPEC = r"[+-]?(?:[0-9]+(?:\.[0-9]*)?|\.[0-9]+)(?:[eE][+-]?[0-9]+)?"                  # 1, 1., .5, -0.8, +3, 20.e12, 2E-4
INT_SPEC = r"[0-9]+"
PYFLOAT = (r"[+-]?(?:[0-9]+(?:_[0-9]+)*\.?(?:[0-9]+(?:_[0-9]+)*)?|\.[0-9]+(?:_[0-9]+)*)"
           r"(?:[eE][+-]?[0-9]+(?:_[0-9]+)*)?")                                           # what float() accepts (ASCII)

# keyword terminals that are alternations of literals (statement names of C07)
RE_KEYWORDS = {
    "LABEL_PYTHIA8_COMMANDS": ["PythiaGenericParam", "PythiaAliasParam", "PythiaBothParam"],
    "LABEL_LINESHAPE": ["LSFLAT", "LSNONRELBW", "LSMANYDELTAFUNC"],
    "LABEL_INCLUDE_FACTOR": ["IncludeBirthFactor", "IncludeDecayFactor"],
    "BOOLEAN_INCLUDE_FACTOR": ["yes", "no"],
    "LABEL_CHANGE_MASS": ["ChangeMassMin", "ChangeMassMax"],
}
# literal keywords, by the name Lark gives the anonymous terminal -> literal (checked against the real terminals)
STR_KEYWORDS = {"DECAY": "Decay", "ENDDECAY": "Enddecay", "END": "End", "DEFINE": "Define", "ALIAS": "Alias",
                "CHARGECONJ": "ChargeConj", "CDECAY": "CDecay", "COPYDECAY": "CopyDecay", "PARTICLE": "Particle",
                "JETSETPAR": "JetSetPar", "MODELALIAS": "ModelAlias", "PHOTOS": "PHOTOS", "YESPHOTOS": "yesPhotos",
                "NOPHOTOS": "noPhotos", "SETLINESHAPEPW": "SetLineshapePW", "BLATTWEISSKOPF": "BlattWeisskopf"}
PUNCT = {"_SEMICOLON": ";", "_COMMA": ",", "COLON": ":", "EQUAL": "="}
import os as _os

WORD_BOUND = 40 if _os.environ.get("VERIF_TIER") == "thorough" else 20       # lexeme bound (+1 following character) where no model name is in the context


def in_alpha(ch):
    return z3.Or(*[ch == ord(c) for c in ALPHA])


def _word_premise(lm: LexModel, wl, lo=1):
    """s = w d?  with w in ALPHA^wl and d (if present) not a label character"""
    s = lm.s
    cons = [wl >= lo, wl <= s.lmax - 1, z3.Or(s.n == wl, s.n == wl + 1)]
    for i in range(s.lmax):
        cons.append(z3.Implies(i < wl, in_alpha(s.c[i])))
        cons.append(z3.Implies(z3.And(i == wl, s.n > wl), z3.Not(in_alpha(s.c[i]))))
    return cons


def _full_match(s: SymStr, pattern: str, wl):
    """z3 Bool: some match of ``pattern`` on s[0:] ends exactly at wl"""
    m = Matcher(s)
    ok, _ = m.first_end_with(pattern, lambda j: (wl == j, z3.IntVal(j)))
    return ok


def _has_prefix_in(s: SymStr, pattern: str):
    ok, end = Matcher(s).first_end(pattern)
    return z3.And(ok, end >= 1)


def _eq_word(s: SymStr, wl, lit: str):
    return z3.And(wl == len(lit), *s.fix_prefix(lit))


def generate(sweep: Sweep, model_names: tuple[str, ...], parts: set[str] | None = None, registered: tuple[str, ...] = ()):
    """Yield LemmaResult for every lemma of the decfile lexer.  ``parts`` restricts the kinds
    ({"word","number","keyword","model","newline","blank","comment"}); None = all."""
    L = sweep.L
    for name, lit in STR_KEYWORDS.items():
        real = sweep.str_terms.get(name)
        if real is not None and real != lit:
            yield LemmaResult(q=-1, F=(), T=name, desc=f"keyword literal of {name} is {real!r}, statement language says {lit!r}",
                              verdict="sat", witness=real, got=(name, len(real)))
    longest_model = max(len(m) for m in model_names)
    want = lambda k: parts is None or k in parts
    for (q, F, prefix, terms, cbs) in sweep.instances():
        names = [n for n, _ in terms]
        folded = {lit: (host, tname) for host, d in cbs.items() for lit, tname in d.items()}
        has_model = "MODEL_NAME" in names
        lmax_word = (longest_model + 2) if has_model else WORD_BOUND
        for T in sorted(F):
            if T == "$END":
                continue
            # ---- which scanner terminal should win
            if T in names:
                host = T
            else:
                hs = [h for lit, (h, tn) in folded.items() if tn == T]
                host = hs[0] if hs else T
            lits = None
            if T in PUNCT:
                lits = [PUNCT[T]]
            elif T in sweep.str_terms:
                lits = [sweep.str_terms[T]]
            elif T in RE_KEYWORDS:
                lits = RE_KEYWORDS[T]
            if lits is not None:
                if not want("keyword"):
                    continue
                for w in lits:
                    lm = sweep.model(terms, len(w) + 2)
                    s = lm.s
                    if T in PUNCT:
                        prem = s.fix_prefix(w) + [s.n >= len(w)]
                    else:
                        prem = s.fix_prefix(w) + [z3.Or(s.n == len(w), z3.And(s.n > len(w), z3.Not(in_alpha(s.c[len(w)]))))]
                    r = sweep.check(q, F, prefix, terms, cbs, T, f"keyword {w!r}", lm, prem, host, len(w))
                    if r.verdict == "unsat" and host != T and folded.get(w, (None, None))[1] != T:
                        r.verdict, r.witness, r.got = "sat", w, (host, len(w))
                        r.desc += " (not retyped by the unless-callback)"
                    yield r
            elif T == "MODEL_NAME":
                if not want("model"):
                    continue
                lm = sweep.model(terms, longest_model + 2)
                s = lm.s
                for w in model_names:
                    prem = s.fix_prefix(w) + [z3.Or(s.n == len(w), z3.And(s.n > len(w), z3.Not(in_alpha(s.c[len(w)]))))]
                    known = []
                    if w in registered and not re.match(r"\w", w[-1]):
                        known.append(("F14e", lambda ww, got, _w=w: ww.startswith(_w), z3.BoolVal(True)))
                    yield sweep.check(q, F, prefix, terms, cbs, T, f"model {w!r}", lm, prem, host, len(w), known)
            elif T in ("LABEL", "SIGNED_NUMBER", "INT"):
                kind = "word" if T == "LABEL" else "number"
                if not want(kind):
                    continue
                lm = sweep.model(terms, lmax_word)
                s = lm.s
                wl = z3.Int(f"wl_{id(lm)}")
                prem = _word_premise(lm, wl)
                known = []
                if T == "LABEL":
                    # intended WORD: not a keyword legal here, not a model name (when one is legal), not a number (when legal)
                    for other in F:
                        for kw in ([sweep.str_terms[other]] if other in sweep.str_terms else RE_KEYWORDS.get(other, [])):
                            prem.append(z3.Not(_eq_word(s, wl, kw)))
                    if "MODEL_NAME" in F:
                        for m in model_names:
                            prem.append(z3.Not(_eq_word(s, wl, m)))
                        # F14d: model name directly followed by a label character that is not a word character
                        f14d = z3.Or(*[z3.And(wl > len(m), z3.Not(is_word(s.c[len(m)])), *s.fix_prefix(m))
                                       for m in model_names if len(m) < s.lmax])
                        known.append(("F14d", _mk_f14d(model_names), f14d))
                    numeric_in_F = [n for n in ("SIGNED_NUMBER", "INT") if n in F]
                    for n in numeric_in_F:
                        prem.append(z3.Not(_full_match(s, NUM_SPEC if n == "SIGNED_NUMBER" else INT_SPEC, wl)))
                    for n in ("SIGNED_NUMBER", "INT"):
                        if n in names:
                            idx = names.index(n)
                            cls = z3.And(lm.ok, lm.ty == idx)
                            fid = "F14b" if n in F else "F14a"
                            known.append((fid, (lambda ww, got, _n=n: got[0] == _n), cls))
                    if "MODEL_NAME" in names and "MODEL_NAME" not in F:
                        idx = names.index("MODEL_NAME")
                        known.append(("F14c", lambda ww, got: got[0] == "MODEL_NAME", z3.And(lm.ok, lm.ty == idx)))
                    for lit, (h, tn) in folded.items():
                        if h == "LABEL" and tn not in F:
                            # a folded keyword that is not legal here still retypes the word (merged look-aheads)
                            eqlit = _eq_word(s, wl, lit)
                            known.append(("F14c", (lambda ww, got, _l=lit: _alpha_prefix(ww) == _l), eqlit))
                    r = sweep.check(q, F, prefix, terms, cbs, T, "word class", lm, prem, host, wl, known)
                    if r.verdict == "unsat":
                        # callback retyping: a word equal to a folded literal is retyped; check separately (z3 side: the
                        # claim above is about the scanner; the retyping is a concrete dictionary look-up)
                        r2 = _retype_check(sweep, q, F, prefix, terms, cbs, lm, wl, prem, folded, known)
                        if r2 is not None:
                            r.known += r2.known
                            r.queries += r2.queries
                            r.seconds += r2.seconds
                            if r2.verdict != "unsat":
                                r.verdict, r.witness, r.got, r.desc = r2.verdict, r2.witness, r2.got, r2.desc
                    yield r
                else:
                    spec = NUM_SPEC if T == "SIGNED_NUMBER" else INT_SPEC
                    prem.append(_full_match(s, spec, wl))
                    yield sweep.check(q, F, prefix, terms, cbs, T, "numeric literal class", lm, prem, host, wl, known)
            elif T == "_NEWLINE":
                if want("newline"):
                    lm = sweep.model(terms, 8)
                    s = lm.s
                    wl = z3.Int(f"nl_{id(lm)}")
                    for cr in (0, 1):
                        prem = [wl >= 1 + cr, wl <= 7, z3.Or(s.n == wl, s.n == wl + 1), s.c[cr] == 10] + ([s.c[0] == 13] if cr else [])
                        for i in range(1 + cr, 8):
                            prem.append(z3.Implies(i < wl, z3.Or(s.c[i] == 32, s.c[i] == 9)))
                            prem.append(z3.Implies(z3.And(i == wl, s.n > wl), z3.And(s.c[i] != 32, s.c[i] != 9)))
                        yield sweep.check(q, F, prefix, terms, cbs, T, "line end " + ("CRLF" if cr else "LF") + " + indentation",
                                          lm, prem, host, wl)
                if want("comment"):
                    # '#...' up to the line end is one token, _NEWLINE (legal here) or the ignored COMMENT
                    lm = sweep.model(terms, 8)
                    s = lm.s
                    wl = z3.Int(f"cm_{id(lm)}")
                    prem = [wl >= 1, wl <= 7, z3.Or(s.n == wl, s.n == wl + 1), s.c[0] == 35]
                    for i in range(1, 8):
                        prem.append(z3.Implies(i < wl, s.c[i] != 10))
                        prem.append(z3.Implies(z3.And(i == wl, s.n > wl), s.c[i] == 10))
                    ok_types = [lm.names.index(n) for n in ("_NEWLINE", "COMMENT") if n in lm.names]
                    yield _check_any(sweep, q, F, prefix, terms, cbs, "COMMENT", "comment up to the line end", lm, prem, ok_types, wl)
            else:
                yield LemmaResult(q=q, F=tuple(sorted(F)), T=T, desc="terminal without an intended class in the specification",
                                  verdict="unsupported", prefix=prefix)
        if want("blank") and "WS_INLINE" in names:
            lm = sweep.model(terms, 6)
            s = lm.s
            wl = z3.Int(f"ws_{id(lm)}")
            prem = [wl >= 1, wl <= 5, s.n == wl + 1]
            for i in range(6):
                prem.append(z3.Implies(i < wl, z3.Or(s.c[i] == 32, s.c[i] == 9)))
                prem.append(z3.Implies(i == wl, z3.And(s.c[i] != 32, s.c[i] != 9)))
            yield sweep.check(q, F, prefix, terms, cbs, "WS_INLINE", "blanks are one ignored token", lm, prem, "WS_INLINE", wl)
        elif want("blank"):
            yield LemmaResult(q=q, F=tuple(sorted(F)), T="WS_INLINE", desc="blanks not ignored in this state", verdict="sat",
                              witness=" ", got=(None, 0), prefix=prefix)


def _alpha_prefix(w: str) -> str:
    i = 0
    while i < len(w) and w[i] in ALPHA:
        i += 1
    return w[:i]


def _mk_f14d(model_names):
    def pred(w, got):
        word = _alpha_prefix(w)
        return got[0] == "MODEL_NAME" and any(word.startswith(m) and len(word) > len(m) and not re.match(r"\w", word[len(m)])
                                              and got[1] == len(m) for m in model_names)
    return pred


def _retype_check(sweep, q, F, prefix, terms, cbs, lm, wl, prem, folded, known):
    """A WORD that equals a folded literal whose terminal is not in F would be retyped by the callback."""
    lits = [lit for lit, (h, tn) in folded.items() if h == "LABEL" and tn not in F]
    if not lits:
        return None
    s = lm.s
    import time
    res = LemmaResult(q=q, F=tuple(sorted(F)), T="LABEL", desc="word equal to a folded keyword that is not legal here",
                      verdict="unsat", prefix=prefix, bound=s.lmax)
    t0 = time.time()
    for lit in lits:
        if len(lit) >= s.lmax:
            continue
        sol = z3.Solver()
        sol.set("timeout", 60000)
        sol.add(*s.constraints())
        sol.add(*prem)
        sol.add(_eq_word(s, wl, lit))
        r = str(sol.check())
        res.queries += 1
        if r == "sat":
            w = s.value(sol.model())
            tn = folded[lit][1]
            res.known.append(("F14c", w, (tn, len(lit))))
        elif r != "unsat":
            res.verdict = "unknown"
    res.seconds = time.time() - t0
    return res


def _check_any(sweep, q, F, prefix, terms, cbs, T, desc, lm, prem, ok_idx, want_end):
    import time
    res = LemmaResult(q=q, F=tuple(sorted(F)), T=T, desc=desc, verdict="unknown", prefix=prefix, bound=lm.s.lmax)
    t0 = time.time()
    sol = z3.Solver()
    sol.set("timeout", 60000)
    sol.add(*lm.s.constraints())
    sol.add(*prem)
    r = str(sol.check())
    res.queries += 1
    if r != "sat":
        res.verdict = "vacuous" if r == "unsat" else "unknown"
        return res
    sol.add(z3.Not(z3.And(lm.ok, z3.Or(*[lm.ty == i for i in ok_idx]) if ok_idx else z3.BoolVal(False), lm.end == want_end)))
    r = str(sol.check())
    res.queries += 1
    res.verdict = r if r in ("sat", "unsat") else "unknown"
    if r == "sat":
        mo = sol.model()
        res.witness = lm.s.value(mo)
        gi = mo.eval(lm.ty, model_completion=True).as_long()
        res.got = (lm.names[gi] if gi >= 0 else None, mo.eval(lm.end, model_completion=True).as_long())
    res.seconds = time.time() - t0
    return res


# ---- statement level (B1): the .dec statement language as an annotated regular expression --------------------------
def statement_language(A):
    """Spec expression over the alphabet ``A`` (engine.grammodel.Alphabet).  Written from C01/C02/C05/C06/C07:
    which statements exist, what each consists of, which tokens survive into the tree and how the tree is bracketed."""
    from .grammodel import alt, cat

    def K(t):
        return A.lit(("tok", t, "keep"))

    def D(t):
        return A.lit(("tok", t, "drop"))

    def N(label, *body):
        return z3.Concat(A.lit(("open", label)), cat(body), A.lit(("close",)))

    NL = z3.Plus(D("_NEWLINE"))                                    # one or more line ends / comments
    value = N("value", K("SIGNED_NUMBER"))
    particle = N("particle", K("LABEL"))
    model_label = N("model_label", K("LABEL"))
    # parameters: numbers and words in order; commas and line breaks between them carry no meaning (dropped)
    options = N("model_options", z3.Plus(alt([value, K("LABEL"), D("_NEWLINE"), D("_COMMA")])))
    model = N("model", alt([model_label, z3.Concat(K("MODEL_NAME"), z3.Option(options))]), z3.Plus(D("_SEMICOLON")))
    decayline = N("decayline", value, z3.Star(particle), z3.Option(N("photos", D("PHOTOS"))), model, NL)
    decay = N("decay", D("DECAY"), particle, NL, z3.Star(decayline), D("ENDDECAY"))
    statements = {
        "decay": decay,
        "define": N("define", D("DEFINE"), K("LABEL"), K("SIGNED_NUMBER")),
        "particle_def": N("particle_def", D("PARTICLE"), K("LABEL"), K("SIGNED_NUMBER"), z3.Option(K("SIGNED_NUMBER"))),
        "pythia_def": N("pythia_def", K("LABEL_PYTHIA8_COMMANDS"), K("LABEL"), D("COLON"), K("LABEL"), D("EQUAL"),
                        alt([K("LABEL"), K("SIGNED_NUMBER")])),
        "jetset_def": N("jetset_def", D("JETSETPAR"), K("LABEL"), D("EQUAL"), K("SIGNED_NUMBER")),
        "ls_def": N("ls_def", K("LABEL_LINESHAPE"), K("LABEL")),
        "model_alias": N("model_alias", D("MODELALIAS"), model_label, model),
        "alias": N("alias", D("ALIAS"), K("LABEL"), K("LABEL")),
        "chargeconj": N("chargeconj", D("CHARGECONJ"), K("LABEL"), K("LABEL")),
        "global_photos": N("global_photos", alt([N("yes", D("YESPHOTOS")), N("no", D("NOPHOTOS"))])),
        "cdecay": N("cdecay", D("CDECAY"), K("LABEL")),
        "copydecay": N("copydecay", D("COPYDECAY"), N("label", K("LABEL")), N("label", K("LABEL"))),
        "setlspw": N("setlspw", D("SETLINESHAPEPW"), K("LABEL"), K("LABEL"), K("LABEL"), K("INT")),
        "setlsbw": N("setlsbw", D("BLATTWEISSKOPF"), K("LABEL"), K("SIGNED_NUMBER")),
        "changemasslimit": N("changemasslimit", K("LABEL_CHANGE_MASS"), K("LABEL"), K("SIGNED_NUMBER")),
        "inc_factor": N("inc_factor", K("LABEL_INCLUDE_FACTOR"), K("LABEL"), K("BOOLEAN_INCLUDE_FACTOR")),
    }
    start = N("start", z3.Star(D("_NEWLINE")), z3.Star(z3.Concat(alt(list(statements.values())), NL)),
              z3.Option(z3.Concat(D("END"), NL)))
    return start, statements


def terminal_language_obligations(L):
    """B2: (name, A, B, meaning) inclusion pairs over *character* strings, all lengths."""
    terms = {t.name: t.pattern.to_regexp() for t in L.terminals}
    out = []
    label_spec = z3.Plus(z3.Union(*[z3.Re(z3.StringVal(c)) for c in ALPHA]))
    lab = to_re(terms["LABEL"])
    out.append(("L(LABEL) subset-of alphabet+", lab, label_spec))
    out.append(("alphabet+ subset-of L(LABEL)", label_spec, lab))
    num = to_re(terms["SIGNED_NUMBER"])
    out.append(("L(SIGNED_NUMBER) subset-of numeric forms of C01", num, to_re(NUM_SPEC)))
    out.append(("numeric forms of C01 subset-of L(SIGNED_NUMBER)", to_re(NUM_SPEC), num))
    out.append(("L(SIGNED_NUMBER) subset-of literals float() accepts", num, to_re(PYFLOAT)))
    out.append(("L(INT) = digits+ (1)", to_re(terms["INT"]), to_re(INT_SPEC)))
    out.append(("L(INT) = digits+ (2)", to_re(INT_SPEC), to_re(terms["INT"])))
    return out
