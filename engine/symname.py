"""C06: a *symbolic* user-registered model name.

`load_additional_decay_models` + `_generate_edit_terminals_callback` build the MODEL_NAME alternation with `sorted`, `re.escape`
and `join`, which realise a symbolic string - CrossHair cannot carry a symbolic name through them.  Instead the real code is run
with a *marker* name of length k (a fixed word over the allowed characters); the MODEL_NAME regular expression it produces is
parsed, the alternative that spells the marker is located, and its k literal characters are replaced by z3 integers.  The position
of the registered name inside the alternation, the escaping and the trailing word boundary are thus exactly what the real
callback produced; only the characters of the name are symbolic.  The lemmas then hold for *every* name of that length over
letters, digits, '_' and '-':

  (a) the registered name followed by a character that cannot continue it is lexed as MODEL_NAME, whole;
  (b) every published name still is (whatever the registered name: prefixes, extensions, collisions);
  (c) every other label word is still a LABEL.

Sanity (translator validation): the same substitution with the marker's own characters must reproduce the real scanner's answers.
"""
from __future__ import annotations

import re._constants as C
import re._parser as sre_parse
import time

import z3

from . import common, larkcap, lexmodel, spec_dec
from .common import Obligation
from .decsweep import FUNCS_GRAMMAR, model_names
from .lexmodel import LexModel
from .rx import Unsupported, is_word

MARK = "QzJxQzJxQzJx"
ALLOWED = "abcdefghijklmnopqrstuvwxyzABCDEFGHIJKLMNOPQRSTUVWXYZ0123456789_-"


def _clone(nodes, marker, uvars, found):
    """plain-list copy of a parsed pattern; the alternative spelling ``marker`` gets the symbolic characters"""
    out = []
    for op, av in nodes:
        if op is C.BRANCH:
            alts = []
            for alt in av[1]:
                items = list(alt)
                if len(items) == len(marker) and all(o is C.LITERAL and chr(a) == ch for (o, a), ch in zip(items, marker)):
                    found.append(True)
                    alts.append([(C.LITERAL, u) for u in uvars])
                else:
                    alts.append(_clone(items, marker, uvars, found))
            out.append((op, (av[0], alts)))
        elif op is C.SUBPATTERN:
            out.append((op, (av[0], av[1], av[2], _clone(list(av[3]), marker, uvars, found))))
        elif op in (C.MAX_REPEAT, C.MIN_REPEAT):
            out.append((op, (av[0], av[1], _clone(list(av[2]), marker, uvars, found))))
        else:
            out.append((op, av))
    return out


def in_allowed(ch):
    return z3.Or(*[ch == ord(c) for c in ALLOWED])


def _solve(premise, lm, want_idx, want_end, extra_known=None):
    sol = z3.Solver()
    sol.set("timeout", 120_000)
    sol.add(*lm.s.constraints())
    sol.add(*premise)
    r = str(sol.check())
    if r != "sat":
        return ("vacuous" if r == "unsat" else "unknown"), None, 1
    sol.add(z3.Not(z3.And(lm.ok, lm.ty == want_idx, lm.end == want_end)))
    r = str(sol.check())
    if r == "sat":
        return "sat", sol.model(), 2
    return ("unsat" if r == "unsat" else "unknown"), None, 2


class _Collector:
    """stands in for the report inside a worker process"""

    def __init__(self):
        self.obs, self.violations = [], []

    def add(self, ob):
        self.obs.append(ob)
        return ob

    def violation(self, payload):
        self.violations.append(payload)


def _one(args):
    k, stride = args
    c = _Collector()
    _run(c, (k,), stride)
    return c.obs, c.violations


def run(report, lengths=(1, 2, 3, 4, 5, 6), published_stride=1, workers=8):
    import multiprocessing as mp
    with mp.get_context("fork").Pool(min(workers, len(lengths))) as pool:
        parts = pool.map(_one, [(k, published_stride) for k in lengths])
    for obs, viols in parts:
        for v in viols:
            report.violation(v)
        for ob in obs:
            report.add(ob)


def _run(report, lengths=(1, 2, 3, 4, 5, 6), published_stride=1):
    published = model_names()
    t_all = time.time()
    for k in lengths:
        marker = MARK[:k]
        t0 = time.time()
        try:
            L = larkcap.capture_dec((marker,))
            pairs, nst = lexmodel.collect_pairs(L)
        except Exception as e:
            report.add(Obligation(name=f"symbolic registered name, length {k}", engine="smt", verdict=common.INCONCLUSIVE, detail=repr(e)))
            continue
        sw = lexmodel.Sweep(L, spec_dec, pairs)
        insts = [i for i in sw.instances() if "MODEL_NAME" in i[1] and "MODEL_NAME" in [n for n, _ in i[3]]]
        longest = max(len(m) for m in published)
        stats = {"a": 0, "b": 0, "c": 0}
        queries = 0
        problems = []
        done_ctx = set()
        for (q, F, prefix, terms, cbs) in insts:
            if terms in done_ctx:
                continue
            done_ctx.add(terms)
            names = [n for n, _ in terms]
            pat = dict(terms)["MODEL_NAME"]
            uvars = [z3.Int(f"u{k}_{q}_{i}") for i in range(k)]
            found = []
            nodes = _clone(list(sre_parse.parse(pat)), marker, uvars, found)
            if len(found) != 1:
                problems.append(("encoding", f"marker {marker!r} found {len(found)} times in the MODEL_NAME alternation of state {q}"))
                continue
            try:
                lm = LexModel(terms, max(longest, k) + 2, overrides={"MODEL_NAME": nodes})
            except Unsupported as e:
                problems.append(("unsupported", str(e)))
                continue
            s = lm.s
            idx_model, idx_label = names.index("MODEL_NAME"), names.index("LABEL")
            uok = [in_allowed(u) for u in uvars] + [uvars[-1] != ord("-")]          # a name ending in '-' is finding F14e
            # translator validation: with the marker's own characters the model must agree with the real scanner
            for probe in (marker + ";", marker, "PHSP ", marker + "x "):
                sol = z3.Solver()
                sol.add(*s.constraints(), s.n == len(probe), *s.fix_prefix(probe), *[u == ord(c) for u, c in zip(uvars, marker)])
                assert str(sol.check()) == "sat"
                mo = sol.model()
                gi = mo.eval(lm.ty, model_completion=True).as_long()
                got = (names[gi], mo.eval(lm.end, model_completion=True).as_long()) if z3.is_true(mo.eval(lm.ok, model_completion=True)) else None
                real = lexmodel.real_next_token(L, q, probe)
                real = (real[0] if real[0] != "PHOTOS" else "LABEL", real[1]) if real else None
                if got != real:
                    problems.append(("model-vs-real", probe, got, real))
            nxt = lambda pos: z3.Or(s.n == pos, z3.And(s.n == pos + 1, z3.Not(spec_dec.in_alpha(s.c[pos]))))
            # (a) the registered name itself
            prem = uok + [s.c[i] == uvars[i] for i in range(k)] + [nxt(k)]
            v, mo, nq = _solve(prem, lm, idx_model, k)
            queries += nq
            stats["a"] += 1
            if v != "unsat":
                problems.append(("a", v, _show(mo, s, uvars, lm, names)))
            # (b) every published name
            for p in published[::published_stride]:
                prem = uok + s.fix_prefix(p) + [nxt(len(p))]
                v, mo, nq = _solve(prem, lm, idx_model, len(p))
                queries += nq
                stats["b"] += 1
                if v != "unsat":
                    problems.append(("b", p, v, _show(mo, s, uvars, lm, names)))
                    break
            # (c) other label words stay LABEL (where LABEL is legal): not a published name, not the registered name, not a model
            #     name followed by a non-word label character (finding F14d, which a registered name inherits)
            if "LABEL" in F:
                wl = z3.Int(f"wl{k}_{q}")
                prem = list(uok) + spec_dec._word_premise(lm, wl)
                is_u = z3.And(wl == k, *[s.c[i] == uvars[i] for i in range(k)])
                u_then_nonword = z3.And(wl > k, z3.Not(is_word(s.c[k])), *[s.c[i] == uvars[i] for i in range(k)]) if k < s.lmax else z3.BoolVal(False)
                prem += [z3.Not(is_u), z3.Not(u_then_nonword)]
                for m in published:
                    prem.append(z3.Not(spec_dec._eq_word(s, wl, m)))
                    if len(m) < s.lmax:
                        prem.append(z3.Not(z3.And(wl > len(m), z3.Not(is_word(s.c[len(m)])), *s.fix_prefix(m))))
                for other in F:
                    if other in sw.str_terms:
                        prem.append(z3.Not(spec_dec._eq_word(s, wl, sw.str_terms[other])))
                for n_ in ("SIGNED_NUMBER", "INT"):
                    if n_ in names:                      # numeric-prefix classes F14a/b
                        prem.append(z3.Not(z3.And(lm.ok, lm.ty == names.index(n_))))
                v, mo, nq = _solve(prem, lm, idx_label, wl)
                queries += nq
                stats["c"] += 1
                if v != "unsat":
                    problems.append(("c", v, _show(mo, s, uvars, lm, names)))
        ob = Obligation(
            name=f"symbolic registered model name of length {k}: (a) recognised whole, (b) published names unaffected, (c) other words stay labels",
            engine="smt", verdict=common.DISCHARGED, queries=queries, solver_s=round(time.time() - t0, 2), nontrivial=sum(stats.values()),
            claim="for EVERY name of this length over letters, digits, '_' and '-' (not ending in '-') registered through the real "
                  "load_additional_decay_models / edit_terminals callback",
            bounds=f"name length {k}; following text one character; published names {len(published[::published_stride])}; "
                   f"{len(done_ctx)} lexer contexts where a model name is legal; lexemes up to {max(longest, k) + 1} characters",
            functions=FUNCS_GRAMMAR, sample={"length": k, "marker_used_to_run_the_real_callback": marker, "lemmas": stats})
        if problems:
            ob.detail = problems[:4]
            kinds = {p[0] for p in problems}
            if kinds & {"a", "b", "c"} and any(p[1] == "sat" or (len(p) > 2 and p[2] == "sat") for p in problems if p[0] in "abc"):
                # replay: register the concrete name the solver found and run the real scanner / parser
                wit = next(p[-1] for p in problems if p[0] in "abc" and isinstance(p[-1], dict))
                rep = _replay(wit)
                ob.detail.append(rep)
                if rep.get("reproduced"):
                    ob.verdict = common.VIOLATION
                    report.violation({"engine": "smt", "kind": "symbolic-registered-name", **wit, **rep})
                else:
                    ob.verdict = common.HARNESS_ERROR
            elif kinds & {"model-vs-real", "encoding"}:
                ob.verdict = common.HARNESS_ERROR
            else:
                ob.verdict = common.INCONCLUSIVE
        report.add(ob)


def _show(mo, s, uvars, lm, names):
    if mo is None:
        return None
    u = "".join(chr(mo.eval(x, model_completion=True).as_long()) for x in uvars)
    text = s.value(mo)
    gi = mo.eval(lm.ty, model_completion=True).as_long()
    ok = z3.is_true(mo.eval(lm.ok, model_completion=True))
    return {"registered_name": u, "text": text, "model_says": (names[gi], mo.eval(lm.end, model_completion=True).as_long()) if ok else None}


def _replay(wit):
    """the concrete registered name through the real parser: a decay line using the text as model word"""
    from .decsweep import public_parse
    u, text = wit["registered_name"], wit["text"]
    word = spec_dec._alpha_prefix(text)
    r = public_parse(f"Decay A\n1.0 B C {word};\nEnddecay\n", (u,))
    models = [d["model"] for d in r["tables"]["A"]] if r.get("ok") else None
    expect_model = word if (word == u or word in model_names()) else None
    reproduced = (models != [expect_model]) if expect_model else bool(r.get("ok"))
    return {"public_text": f"1.0 B C {word};", "registered": u, "real_result": r if not r.get("ok") else models, "reproduced": reproduced}
